"""C07  set_val and get_val round-trip through promotion, indices and units.

Oracle : a NumPy model of every independent source (IndepVarComp outputs and auto-IVC backed inputs) in source units,
         updated with NumPy indexing and the unit table; the same operation list is executed on three problem copies
         (before final_setup, after final_setup, after run_model) and must give the same outcome in all three.
"""
import numpy as np

from vfw import core
from vfw.core import Result

ID = 'C07'
LEVEL = 'exploration'
TECHNIQUE = 'Hypothesis-generated models and set_val/get_val call sequences replayed at three setup phases; NumPy source model as reference; cross-phase differential'
RULE = ("case = feed-forward model spec with promoted (renamed) inputs/outputs, auto-IVC (unconnected) inputs, connections with "
        "src_indices and unit conversions + 1-5 operations set_val(name, v, units, indices) each followed by "
        "get_val(name, units, indices) and a scan of all independent variables. Names: absolute or promoted IndepVarComp "
        "outputs, absolute or promoted connected inputs, auto-IVC backed inputs, explicit outputs. units: None or a compatible "
        "unit; indices: None, int, slice, tuple, index list; v: scalar or exact-shape array. Non-trivial = an operation with "
        "units and indices on a promoted or connected input. Distinct = distinct canonical JSON.")
ASSUMPTIONS = [
    "connected inputs whose src_indices repeat a source position are not written (the write would be ambiguous)",
    "setting a non-independent output is only judged by its immediate round trip (run_model legitimately overwrites it)",
    "tolerance 1e-12 relative to (|value| + |unit offset|)",
]
MIN_CLASS_FRACTION = {'judged': 0.6}


def dec(e):
    from vfw.gen_model import dec_idx
    return dec_idx(e)


def known_f23(spec, ref, an, op):
    """F23: set_val with `indices` on an input whose connection src_indices select a single element with an int /
    all-int tuple (NumPy result 0-d): the chain of indexers hits a scalar and the user's index cannot be applied."""
    if op.get('idx') is None:
        return False
    for cn in spec['conns']:
        if cn['tgt'] == an and cn.get('idx') is not None:
            src = ref.xvars.get(cn['src']) or ref.uvars.get(cn['src'])
            flat = cn.get('flat') is True or (cn.get('flat') is None and len(src['shape']) <= 1)
            base = np.zeros(src['size'] if flat else src['shape'])
            try:
                return np.ndim(base[dec(cn['idx'])]) == 0
            except Exception:
                return False
    return False


def addressable(spec, ref):
    """List of (name used in the API, kind, absolute name)."""
    out = []
    prom = {}
    for c in spec['comps']:
        base = '.'.join(c['path'] + [c['name']])
        up = '.'.join(c['path'])
        for key in ('promotes_outputs', 'promotes_inputs'):
            for old, new in c.get(key, []):
                prom[base + '.' + old] = (up + '.' if up else '') + new
    for c in spec['comps']:
        for v in c['outputs']:
            an = '.'.join(c['path'] + [c['name'], v['name']])
            kind = 'ivc_out' if c['kind'] == 'ivc' else 'comp_out'
            out.append((an, kind, an))
            if an in prom:
                out.append((prom[an], kind, an))
        for v in c['inputs']:
            an = '.'.join(c['path'] + [c['name'], v['name']])
            m = ref.inmap[an]
            if m['kind'] == 'const':
                kind = 'auto_in'
            else:
                if len(set(m['pos'].tolist())) < len(m['pos']) or m['kind'] != 'x':
                    continue      # ambiguous write, or source is not independent
                kind = 'conn_in'
            out.append((an, kind, an))
            if an in prom:
                out.append((prom[an], kind, an))
    return out, prom


class Model(object):
    """NumPy model of independent sources."""

    def __init__(self, spec, ref):
        from vfw.refmodel import conv
        self.ref = ref
        self.conv = conv
        self.x = ref.x0.copy()                  # IVC outputs, source units
        self.auto = {}                          # auto-IVC input values, input units
        self.meta = {}
        for c in spec['comps']:
            for v in c['inputs']:
                an = '.'.join(c['path'] + [c['name'], v['name']])
                self.meta[an] = v
                if ref.inmap[an]['kind'] == 'const':
                    self.auto[an] = np.ones(int(np.prod(v['shape']))) * v.get('val', 1.0)
            for v in c['outputs']:
                self.meta['.'.join(c['path'] + [c['name'], v['name']])] = v
        self.comp_out = {}

    def var_value(self, an, kind):
        if kind == 'ivc_out':
            m = self.ref.xvars[an]
            return self.x[m['off']:m['off'] + m['size']].copy()
        if kind == 'auto_in':
            return self.auto[an].copy()
        if kind == 'conn_in':
            m = self.ref.inmap[an]
            return self.x[m['pos']] * m['f'] + m['o']
        return self.comp_out[an].copy()

    def write(self, an, kind, val):
        if kind == 'ivc_out':
            m = self.ref.xvars[an]
            self.x[m['off']:m['off'] + m['size']] = val
        elif kind == 'auto_in':
            self.auto[an] = val.copy()
        elif kind == 'conn_in':
            m = self.ref.inmap[an]
            self.x[m['pos']] = (val - m['o']) / m['f']
        else:
            self.comp_out[an] = val.copy()


def run_phase(spec, ref, ops, names, phase):
    """Execute ops on a fresh problem at the given phase; returns list of outcomes and the final scan."""
    import openmdao.api as om
    from vfw.gen_model import build_problem
    p, _ = build_problem(spec)
    if phase >= 1:
        p.final_setup()
    if phase >= 2:
        p.run_model()
    outcomes = []
    for op in ops:
        api_name, kind, an = names[op['name'] % len(names)]
        kw = {}
        if op.get('units'):
            kw['units'] = op['units']
        if op.get('idx') is not None:
            kw['indices'] = dec(op['idx'])
        val = np.array(op['val'], dtype=float) if isinstance(op['val'], list) else float(op['val'])
        try:
            p.set_val(api_name, val, **kw)
            got = np.asarray(p.get_val(api_name, **kw), dtype=float).copy()
            scan = {}
            for n, m in ref.xvars.items():
                scan[n] = np.asarray(p.get_val(n)).ravel().copy()
            for c in ref.comps:
                for v in c['inputs']:
                    a2 = '.'.join(c['path'] + [c['name'], v['name']])
                    if ref.inmap[a2]['kind'] == 'const':
                        scan[a2] = np.asarray(p.get_val(a2)).ravel().copy()
            outcomes.append(('ok', got, scan))
        except Exception as e:
            sig = core.repo_frame_signature(e, 'set-get')
            if sig is None:
                raise
            outcomes.append(('exc', f"{type(e).__name__}: {e}"[:300], sig))
    return outcomes


def check(case):
    from vfw.refmodel import RefModel, UNITS
    from vfw.props.c01 import spec_flags
    spec = case['spec']
    res = Result()
    ref = RefModel(spec)
    names, prom = addressable(spec, ref)
    flags = spec_flags(spec)
    cls = sorted(flags & {'nested', 'src_indices', 'unit_factor', 'unit_offset'})
    iterating = bool(spec.get('feedback')) or any(g.get('nl') not in (None, 'runonce') for g in spec['groups'].values())
    if not names:
        res.classes = cls + ['nothing_addressable']
        return res
    ops = case['ops']
    # resolve ops against the variable they address (shape-dependent parts are reduced modulo the shape here)
    model = Model(spec, ref)
    expected = []
    nontriv = False
    for op in ops:
        api_name, kind, an = names[op['name'] % len(names)]
        meta = model.meta[an]
        shape = tuple(meta['shape'])
        if kind == 'comp_out' and an not in model.comp_out:
            model.comp_out[an] = np.ones(int(np.prod(shape))) * meta.get('val', 1.0)
        uvar = meta.get('units')
        U = op.get('units')
        cur = model.var_value(an, kind)
        f, o = model.conv(uvar, U) if U else (1.0, 0.0)
        w = (cur * f + o).reshape(shape)
        idx = dec(op['idx']) if op.get('idx') is not None else None
        val = np.array(op['val'], dtype=float) if isinstance(op['val'], list) else float(op['val'])
        if idx is None:
            w[...] = val
            sel = w.copy()
        else:
            w[idx] = val
            sel = np.asarray(w[idx]).copy()
        fi, oi = model.conv(U, uvar) if U else (1.0, 0.0)
        model.write(an, kind, (w.ravel() * fi + oi))
        scan = {n: model.x[m['off']:m['off'] + m['size']].copy() for n, m in ref.xvars.items()}
        scan.update({k: v.copy() for k, v in model.auto.items()})
        expected.append((sel, scan, abs(o) + abs(oi)))
        if U and idx is not None and (kind == 'conn_in' or api_name != an):
            nontriv = True
    import openmdao.api as om
    phases = {}
    for ph in (0, 1, 2):
        try:
            phases[ph] = run_phase(spec, ref, ops, names, ph)
        except om.AnalysisError:
            res.discard = 'nonconverged'
            res.classes = cls + ['nonconverged']
            return res
    for i, op in enumerate(ops):
        api_name, kind, an = names[op['name'] % len(names)]
        sel, scan, offmag = expected[i]
        tag = f"{kind}{'-prom' if api_name != an else ''}{'-units' if op.get('units') else ''}{'-idx' if op.get('idx') is not None else ''}"
        if kind == 'conn_in' and known_f23(spec, ref, an, op):
            tag = 'F23-indices-on-input-with-scalar-src_indices'
        outs = [phases[ph][i] for ph in (0, 1, 2)]
        kinds = [o[0] for o in outs]
        if len(set(kinds)) > 1:
            res.fail(f"phase-dependent-outcome:{tag}",
                     f"op {i} set_val({api_name!r}, units={op.get('units')}, indices={op.get('idx')}): "
                     + '; '.join(f"phase {ph}: {o[0]} {o[1] if o[0] == 'exc' else ''}" for ph, o in zip((0, 1, 2), outs)))
            break
        if kinds[0] == 'exc':
            res.fail(f"raises:{tag}:{outs[0][2]}", f"op {i} set_val({api_name!r}, units={op.get('units')}, indices={op.get('idx')}): {outs[0][1]}")
            break
        for ph, o in zip((0, 1, 2), outs):
            got, gscan = o[1], o[2]
            tol = 1e-12 * (np.abs(sel) + offmag + 1.0)
            if np.asarray(got).size != np.asarray(sel).size or np.any(np.abs(np.asarray(got).ravel() - np.asarray(sel).ravel()) > np.asarray(tol).ravel()):
                res.fail(f"round-trip:{tag}", f"op {i} phase {ph} get_val({api_name!r}, units={op.get('units')}, indices={op.get('idx')}) "
                                               f"= {np.asarray(got).tolist()} expected {np.asarray(sel).tolist()}")
                break
            if kind != 'comp_out' or True:
                for n, exp in scan.items():
                    g = gscan[n]
                    # after run_model of a model with an iterating nonlinear solver the independent outputs themselves
                    # carry the round-off of the solver's last linear solve (a Newton solver at the root updates every
                    # output): "unchanged" is then judged to 1e-9, otherwise to 1e-12
                    t2 = (1e-9 if (ph == 2 and iterating) else 1e-12) * (np.abs(exp) + offmag + 1.0)
                    if g.shape != exp.shape or np.any(np.abs(g - exp) > t2):
                        res.fail(f"other-entries-changed:{tag}", f"op {i} phase {ph}: {n} = {g.tolist()} expected {exp.tolist()}")
                        break
    res.nontrivial = nontriv
    res.classes = cls + ['judged'] + sorted({names[op['name'] % len(names)][1] for op in ops})
    return res


def strategy(tier):
    from hypothesis import strategies as st
    from vfw.gen_spec import model_spec, profile, _draw_index
    from vfw.gen_model import UNIT_FAMILIES, UNIT2FAMILY
    from vfw.refmodel import RefModel

    @st.composite
    def case(draw):
        spec = draw(model_spec(profile(allow_cycles=False, p_imp=0.0, styles=['dense'], assembled=False, max_comps=3,
                                       auto_ivc=0.3, promotions=0.5, p_neg_index=0.2)))
        ref = RefModel(spec)
        names, prom = addressable(spec, ref)
        meta = {}
        for c in spec['comps']:
            for v in c['inputs'] + c['outputs']:
                meta['.'.join(c['path'] + [c['name'], v['name']])] = v
        ops = []
        for _ in range(draw(st.integers(1, 5))):
            if not names:
                break
            # choose the kind of name first (inputs three times as often as outputs), then a name of that kind
            by_kind = {}
            for j, (_, kd, _) in enumerate(names):
                by_kind.setdefault(kd, []).append(j)
            pool = [kd for kd in sorted(by_kind) for _ in range(3 if kd in ('conn_in', 'auto_in') else 1)]
            k = draw(st.sampled_from(by_kind[draw(st.sampled_from(pool))]))
            api_name, kind, an = names[k]
            v = meta[an]
            shape = list(v['shape'])
            op = {'name': k}
            if v.get('units') and draw(st.booleans()):
                op['units'] = draw(st.sampled_from(UNIT_FAMILIES[UNIT2FAMILY[v['units']]]))
            rshape = shape
            if draw(st.booleans()):
                form = draw(st.sampled_from(['int', 'slice', 'tuple', 'list'])) if len(shape) >= 1 else 'int'
                n0 = shape[0]
                if form == 'int':
                    idx = {'i': draw(st.integers(-n0, n0 - 1))}
                elif form == 'slice':
                    idx = {'s': [draw(st.one_of(st.none(), st.integers(0, n0 - 1))), draw(st.one_of(st.none(), st.integers(1, n0))), None]}
                elif form == 'list':
                    idx = {'a': [draw(st.integers(-n0, n0 - 1)) for _ in range(draw(st.integers(1, 2)))], 'list': True}
                else:
                    # tuple of per-dimension entries: int, full slice, bounded slice, and at most one index list
                    parts = []
                    used_list = False
                    for e in shape:
                        kind = draw(st.sampled_from(['int', 'full', 'slice', 'list']))
                        if kind == 'list' and used_list:
                            kind = 'full'
                        if kind == 'int':
                            parts.append({'i': draw(st.integers(-e, e - 1))})
                        elif kind == 'full':
                            parts.append({'s': [None, None, None]})
                        elif kind == 'slice':
                            a = draw(st.integers(0, e - 1))
                            parts.append({'s': [a, draw(st.integers(a + 1, e)), None]})
                        else:
                            used_list = True
                            k2 = draw(st.integers(1, min(2, e)))
                            parts.append({'a': draw(st.lists(st.integers(0, e - 1), min_size=k2, max_size=k2, unique=True)), 'list': True})
                    idx = {'t': parts}
                r = np.zeros(shape)[dec(idx)]
                if np.asarray(r).size == 0:
                    idx = None
                else:
                    op['idx'] = idx
                    rshape = list(np.asarray(r).shape)
            nsel = int(np.prod(rshape)) if rshape else 1
            # a scalar value is documented for a single selected element or for a whole variable
            if (draw(st.booleans()) and (nsel == 1 or 'idx' not in op)) or not rshape:
                op['val'] = draw(st.integers(-12, 12)) / 2.0
            else:
                n = int(np.prod(rshape))
                op['val'] = np.array(draw(st.lists(st.integers(-12, 12), min_size=n, max_size=n)), dtype=float).reshape(rshape).__truediv__(2.0).tolist()
            ops.append(op)
        return {'spec': spec, 'ops': ops}
    return case()


def units(tier, seed):
    n = 16 if tier == 'quick' else 32
    per = 60 if tier == 'quick' else 400
    return [{'kind': 'random', 'n': per, 'seed': core.shard_seed(seed, ID, i)} for i in range(n)]


def run_unit(unit, ctx):
    core.run_hypothesis(ctx, strategy(unit.get('tier')), check, unit['n'], unit['seed'], shrink=unit.get('tier') == 'thorough')
