"""C12  FD and complex-step approximations are faithful and side-effect free.

Oracle : for quadratic functions f_k(x) = c_k + g_k.x + 1/2 x^T H_k x the forward / backward / central difference
         quotients have a closed form (column i: exact +/- 1/2 h_i H_k[i,i], central exact), with h_i computed by the
         harness from the documented step_calc semantics; cs equals the exact derivative; colored == uncolored;
         inputs / outputs / residuals are compared bitwise before and after every approximation.
"""
import numpy as np

from vfw import core
from vfw.core import Result

ID = 'C12'
LEVEL = 'exploration'
TECHNIQUE = 'Hypothesis-generated quadratic components/groups; closed-form finite-difference quotient as reference oracle; colored-vs-uncolored differential; bitwise state snapshots'
RULE = ("case = an explicit component with 1-3 inputs and 1-2 outputs computing sparse quadratics with integer-coded "
        "coefficients, declare_partials(method fd|cs, form, step, step_calc in {abs, rel, rel_avg, rel_element, rel_legacy}, "
        "minimum_step) per case, input values including exact zeros and large magnitudes, with or without declare_coloring; "
        "evaluated as component partials (run_linearize) and, in a second configuration, inside a group with "
        "approx_totals(method, form, step, step_calc). Non-trivial = H != 0 and (non-default step_calc or colored). "
        "Distinct = distinct canonical JSON.")
ASSUMPTIONS = [
    "step semantics taken from the declare_partials docstring: abs: h=step; rel/rel_avg: h=step*mean|x_var|; rel_legacy: "
    "h=step*||x_var||; rel_element: h_i=step*|x_i|; h<minimum_step -> minimum_step",
    "tolerance for fd: 64*eps*(max|f| + max|x||g|)/h_min + 1e-9*|exact| ; for cs: 1e-12 relative",
    "for a colored model-level approx_totals the form/step are passed to declare_coloring explicitly and step_calc is 'abs' "
    "(declare_coloring has no step_calc argument and does not inherit the approx_totals options)",
    "OpenMDAO's dynamic coloring perturbs inputs with numpy's global RNG: it is seeded from the case",
]
MIN_CLASS_FRACTION = {'judged': 0.8}


def known_f13(case):
    """F13: colored finite differences with a relative step_calc use ONE step per color (taken from one variable /
    element 0) for all columns of the color, so columns of other variables / elements get the wrong step."""
    return bool(case.get('colored')) and case['method'] == 'fd' and case['opts'].get('step_calc', 'abs') != 'abs'


def known_f20(case):
    """F20: approx_totals + declare_coloring on the root model: the first compute_totals call (the one that generates the
    dynamic coloring) returns zeros."""
    return case['config'] == 'group' and bool(case.get('colored'))


def _layout(case):
    sizes = [len(v) for v in case['x']]
    offs = np.concatenate([[0], np.cumsum(sizes)]).astype(int)
    return sizes, offs


def _coeffs(case):
    n = sum(len(v) for v in case['x'])
    m = case['nout']
    q = 4.0
    g = np.array(case['g'], dtype=float).reshape(m, n) / q
    c = np.array(case['c'], dtype=float) / q
    H = np.zeros((m, n, n))
    for (k, i, j, v) in case['H']:
        H[k, i % n, j % n] += v / q
        if i % n != j % n:
            H[k, j % n, i % n] += v / q
    return c, g, H


def make_comp(case, spy=None):
    import openmdao.api as om
    sizes, offs = _layout(case)
    c, g, H = _coeffs(case)
    m = case['nout']

    class Quad(om.ExplicitComponent):
        def setup(self):
            for i, v in enumerate(case['x']):
                self.add_input(f"x{i}", val=np.array(v, dtype=float))
            # optional solver scaling of the output: approximations run in physical units, whatever the scaling
            self.add_output('y', val=np.zeros(m), **{k: v for k, v in (case.get('yscale') or {}).items()})
            self.declare_partials('y', '*', method=case['method'], **case['opts'])
            if case.get('colored'):
                self.declare_coloring(wrt='*', method=case['method'], num_full_jacs=2, min_improve_pct=0.0, show_summary=False)

        def compute(self, inputs, outputs):
            x = np.concatenate([np.asarray(inputs[f"x{i}"]).ravel() for i in range(len(sizes))])
            outputs['y'] = c + g @ x + 0.5 * np.einsum('kij,i,j->k', H, x, x)
    return Quad()


def steps(case, x):
    """h per flattened input element from the documented step_calc semantics."""
    sizes, offs = _layout(case)
    o = case['opts']
    step = o.get('step', 1e-6)
    sc = o.get('step_calc', 'abs')
    mn = o.get('minimum_step', 1e-12)
    h = np.zeros(x.size)
    for i in range(len(sizes)):
        xv = x[offs[i]:offs[i + 1]]
        if sc == 'abs':
            hv = np.full(xv.size, step)
        elif sc in ('rel', 'rel_avg'):
            s = step * np.sum(np.abs(xv)) / len(xv)
            hv = np.full(xv.size, s if s >= mn else mn)
        elif sc == 'rel_legacy':
            s = step * np.linalg.norm(xv)
            hv = np.full(xv.size, s if s >= mn else mn)
        else:
            hv = np.abs(xv) * step
            hv[hv < mn] = mn
        h[offs[i]:offs[i + 1]] = hv
    return h


def check(case):
    import openmdao.api as om
    res = Result()
    sizes, offs = _layout(case)
    c, g, H = _coeffs(case)
    m = case['nout']
    x = np.concatenate([np.array(v, dtype=float) for v in case['x']])
    n = x.size
    exact = g + np.einsum('kij,j->ki', H, x)
    form = case['opts'].get('form', 'forward')
    h = steps(case, x)
    diagH = np.array([[H[k, i, i] for i in range(n)] for k in range(m)])
    if case['method'] == 'cs':
        expect = exact
        tol = 1e-12 * (np.abs(exact) + 1.0)
    else:
        if form == 'forward':
            expect = exact + 0.5 * h[None, :] * diagH
        elif form == 'backward':
            expect = exact - 0.5 * h[None, :] * diagH
        else:
            expect = exact
        fx = c + g @ x + 0.5 * np.einsum('kij,i,j->k', H, x, x)
        mag = float(np.max(np.abs(fx))) + float(np.max(np.abs(g)) * np.max(np.abs(x))) + \
            float(np.max(np.abs(H)) * np.max(np.abs(x)) ** 2) + 1.0
        tol = 64 * np.finfo(float).eps * mag / h[None, :] + 1e-9 * np.abs(expect) + 1e-12
    if case.get('colored'):
        # dynamic coloring detects the sparsity numerically at the evaluation point (forward differences, noise ~1e-10
        # relative): a structurally nonzero entry that vanishes there (g + H x = 0 because some x is exactly 0) is taken
        # for a structural zero, its column may share a color with a column of the same row, and the colored result then
        # carries the cross term h*H_ij - documented behaviour of dynamic coloring, not an approximation error
        structural = (g != 0) | np.any(H != 0, axis=2)
        if np.any(structural & (np.abs(exact) <= 1e-6 * max(1.0, float(np.max(np.abs(exact)))))):
            res.discard = 'sparsity-not-detectable-at-this-point'
            res.classes = ['colored', 'sparsity_not_detectable']
            return res
    f13 = known_f13(case)
    pre = 'F13|' if f13 else ''
    if known_f20(case):
        pre = 'F20|'
    cls = [case['method'], 'form_' + form, 'sc_' + case['opts'].get('step_calc', 'abs'), 'colored' if case.get('colored') else 'uncolored',
           case['config']] + (['output_scaling'] if case.get('yscale') else [])
    np.random.seed(case.get('npseed', 0))
    p = om.Problem(reports=False)
    if case['config'] == 'component':
        p.model.add_subsystem('q', make_comp(case))
    else:
        # group approximating its semi-totals: ivc -> quad, approx_totals on the group
        # ivc -> G(quad); the approximation is owned by G (semi-totals) or, when colored, by the root model
        # (OpenMDAO documents that semi-total coloring is not supported)
        ivc = p.model.add_subsystem('iv', om.IndepVarComp())
        for i, v in enumerate(case['x']):
            ivc.add_output(f"x{i}", val=np.array(v, dtype=float))
        grp = p.model.add_subsystem('G', om.Group())
        case2 = dict(case, method='cs', opts={}, colored=False)     # inner partials exact (cs), outer approximation judged
        grp.add_subsystem('q', make_comp(case2))
        for i in range(len(sizes)):
            p.model.connect(f"iv.x{i}", f"G.q.x{i}")
        owner = p.model if case.get('colored') else grp
        owner.approx_totals(method=case['method'], **{k: v for k, v in case['opts'].items() if k in ('step', 'form', 'step_calc')})
        if case.get('colored'):
            ckw = {k: v for k, v in case['opts'].items() if k in ('step', 'form')}
            owner.declare_coloring(wrt='*', method=case['method'], num_full_jacs=2, min_improve_pct=0.0, show_summary=False, **ckw)
            for i in range(len(sizes)):
                p.model.add_design_var(f"iv.x{i}")
            p.model.add_constraint('G.q.y', lower=-1e30)
    try:
        p.setup(force_alloc_complex=True)
        p.final_setup()
        p.run_model()
        snap = {k: getattr(p.model, k).asarray(copy=True) for k in ('_inputs', '_outputs', '_residuals')}
        if case['config'] == 'component':
            p.model.run_linearize()
            J = np.zeros((m, n))
            comp = p.model.q
            for i in range(len(sizes)):
                sub = comp._jacobian['y', f"x{i}"]
                J[:, offs[i]:offs[i + 1]] = np.asarray(sub.todense() if hasattr(sub, 'todense') else sub).reshape(m, sizes[i])
        else:
            of = ['G.q.y']
            wrt = [f"iv.x{i}" for i in range(len(sizes))]
            Jt = p.compute_totals(of=of, wrt=wrt, return_format='array')
            J = np.asarray(Jt).reshape(m, n)
            if case.get('colored'):
                J_second = np.asarray(p.compute_totals(of=of, wrt=wrt, return_format='array')).reshape(m, n)
    except Exception as e:
        sig = core.repo_frame_signature(e, 'approx')
        if sig is None:
            raise
        res.fail(pre + sig, f"{type(e).__name__}: {e}")
        res.classes = cls
        return res
    # side effects: bitwise
    for k, before in snap.items():
        after = getattr(p.model, k).asarray()
        if before.shape != after.shape or not np.array_equal(before, after):
            res.fail(f"{pre}state-changed:{k}", f"{k}: before {before.tolist()} after {after.tolist()}")
    if case['config'] == 'group' and case['method'] == 'fd' and case['opts'].get('step_calc', 'abs') != 'abs':
        # for group totals the wrt variable is an output of the group; the relative step uses that variable's value: same h
        pass
    if case['config'] == 'group' and case.get('colored'):
        bad2 = np.abs(J_second - expect) > tol
        if np.any(bad2):
            k, i = np.argwhere(bad2)[0]
            res.fail(f"{'F13|' if f13 else ''}approximation:{case['method']}-second-call-differs-from-closed-form",
                     f"entry ({k},{i}): got {J_second[k, i]!r} expected {expect[k, i]!r}")
    bad = np.abs(J - expect) > tol
    if np.any(bad):
        k, i = np.argwhere(bad)[0]
        res.fail(f"{pre}approximation:{case['method']}-differs-from-closed-form",
                 f"entry ({k},{i}): got {J[k, i]!r} expected {expect[k, i]!r} exact {exact[k, i]!r} h={h[i]!r} tol={np.broadcast_to(tol, J.shape)[k, i]:.3e}")
    res.nontrivial = bool(np.any(H != 0)) and (case['opts'].get('step_calc', 'abs') != 'abs' or bool(case.get('colored')))
    res.classes = cls + ['judged']
    return res


def strategy(tier):
    from hypothesis import strategies as st

    @st.composite
    def case(draw):
        nin = draw(st.integers(1, 3))
        xs = []
        for i in range(nin):
            k = draw(st.integers(1, 4))
            xs.append([draw(st.sampled_from([0.0, 0.0, 0.5, -0.75, 1.0, 2.5, -3.0, 40.0, -1000.0, 0.001])) for _ in range(k)])
        n = sum(len(v) for v in xs)
        m = draw(st.integers(1, 3))
        g = draw(st.lists(st.one_of(st.just(0), st.just(0), st.integers(-8, 8)), min_size=m * n, max_size=m * n))
        cc = draw(st.lists(st.integers(-8, 8), min_size=m, max_size=m))
        nH = draw(st.integers(0, 6))
        Hs = [[draw(st.integers(0, m - 1)), draw(st.integers(0, n - 1)), draw(st.integers(0, n - 1)), draw(st.integers(-8, 8))]
              for _ in range(nH)]
        method = draw(st.sampled_from(['fd', 'fd', 'fd', 'cs']))
        opts = {}
        if method == 'fd':
            opts['form'] = draw(st.sampled_from(['forward', 'backward', 'central']))
            opts['step'] = draw(st.sampled_from([1e-3, 1e-4, 1e-5, 1e-6]))
            opts['step_calc'] = draw(st.sampled_from(['abs', 'rel', 'rel_avg', 'rel_element', 'rel_legacy']))
            if draw(st.booleans()):
                opts['minimum_step'] = draw(st.sampled_from([1e-12, 1e-7, 1e-5]))
        config = draw(st.sampled_from(['component', 'component', 'group']))
        colored = draw(st.booleans())
        if config == 'group':
            opts.pop('minimum_step', None)
            if colored and method == 'fd':
                # declare_coloring has no step_calc argument: a colored model-level approximation is only specified for 'abs'
                opts['step_calc'] = 'abs'
        out = {'x': xs, 'nout': m, 'g': g, 'c': cc, 'H': Hs, 'method': method, 'opts': opts, 'colored': colored,
               'config': config, 'npseed': draw(st.integers(0, 1000))}
        if draw(st.sampled_from([False, False, True])):
            ys = {}
            if draw(st.booleans()):
                ys['ref'] = draw(st.sampled_from([0.125, 8.0, -4.0, 64.0]))
            if draw(st.booleans()) or not ys:
                ys['ref0'] = draw(st.sampled_from([0.5, -2.0, 16.0]))
            if ys.get('ref') != ys.get('ref0'):
                out['yscale'] = ys
        return out
    return case()


def units(tier, seed):
    n = 16 if tier == 'quick' else 32
    per = 100 if tier == 'quick' else 1400
    return [{'kind': 'random', 'n': per, 'seed': core.shard_seed(seed, ID, i)} for i in range(n)]


def run_unit(unit, ctx):
    core.run_hypothesis(ctx, strategy(unit.get('tier')), check, unit['n'], unit['seed'], shrink=unit.get('tier') == 'thorough')
