"""C28  Surrogate models reproduce training data and their own derivatives.

Domain : training sets of dimension 1-3 on jittered tensor grids (spacing bounded below BY CONSTRUCTION, so the
         conditioning is bounded; the conditioning that is actually measured is reported as class buckets), 1-2
         outputs (1-3 for the component), drawn input box / output scale; ResponseSurface, NearestNeighbor
         {linear, weighted, rbf} with their documented options, KrigingSurrogate(nugget, eval_rmse, lapack_driver),
         MetaModelUnStructuredComp (vec_size 1-3, several inputs / outputs, default and per-output surrogates,
         training data through add_input/add_output(training_data=) and through options['train_*'], retraining).
Oracle : RS predict == the generating quadratic (tolerance ~ eps*cond(design matrix)); NN / Kriging
         predict(x_train) == y_train (tolerance derived from the measured conditioning of the interpolation system);
         linearize(x) == 4th-order central difference of predict on a stencil over which the neighbour set is
         provably constant, with a three-level Richardson gate (non-converged => 'inconclusive', never a violation);
         component outputs / totals (fwd and rev) == predict / linearize of independently trained surrogates, plus the
         absolute clauses (training rows reproduce the training outputs, RS rows equal the quadratic).
"""
import numpy as np

from vfw import core
from vfw.core import Result

ID = 'C28'
LEVEL = 'exploration'
TECHNIQUE = ('Hypothesis-generated jittered-grid training sets x surrogate options; closed-form quadratic / training '
             'data as absolute oracle; Richardson-gated 4th-order central difference with a neighbour-set constancy '
             'proof as derivative oracle; component-vs-surrogate differential')
RULE = ("case = (kind surr|comp, dimension n in 1..3, grid counts k_j, per-point jitter <= 0.3 spacing, input box lo/span, "
        "p outputs with y = yoff + yscale*g(u) where g is an integer-coded quadratic, a sum of sines or raw drawn values, "
        "surrogate spec with options, query points as box fractions in [-0.1,1.1] and training-point indices; for comp "
        "additionally the split of the n dimensions over inputs and of the columns over outputs, vec_size, default / "
        "per-output surrogates, how the training data is supplied, retraining). Non-trivial = dimension >= 2 and >= 2 "
        "output columns and at least one clause was judged (not discarded / inconclusive). Distinct = distinct "
        "canonical JSON of the case.")
ASSUMPTIONS = [
    "training points are distinct and well spread by construction (jittered tensor grid, minimum spacing 0.4 of the grid "
    "pitch); the measured conditioning (design matrix for RS, correlation matrix at the trained thetas for Kriging, "
    "RBF system matrix, neighbour simplex for linear) scales every tolerance and is reported as class buckets; systems "
    "with conditioning > 1e8 (Kriging: > 1e6 because of its documented 1e-8 Tikhonov regularisation) are discarded",
    "Kriging: interpolation error bound (1e-8*cond)^2 + nugget*cond/s_max + 500*eps*cond (relative to ||Y||) follows from "
    "the regularised pseudo-inverse documented in the code comments; thetas are read from the trained surrogate, the "
    "correlation matrix is rebuilt independently from the documented model exp(-sum theta_k d_k^2) on standardised inputs",
    "RBF: the conditioning of the interpolation system is measured on the matrix the implementation itself builds "
    "(_find_R on the training points); the formulas of the compact RBFs are not documented, so the oracle is only "
    "interpolation + derivative consistency",
    "derivative oracle is only applied where the interpolant is smooth: the (ordered where it matters) neighbour set is "
    "proven constant over the stencil by the triangle inequality on brute-force normalised distances; queries closer "
    "than 10 stencil radii to a training point are discarded; queries AT training points are used for rbf (families "
    "!= 0) and weighted (dist_eff > 1) where the interpolant is differentiable by construction",
    "a finite difference that fails the Richardson gate (e2 <= max(e1/3, noise floor), one-sided kink gate) or whose "
    "tolerance exceeds 1e-4 of the derivative scale is 'inconclusive' and counted, never judged",
    "documented rejections (ValueError for too few training points, 'Kriging Hyper-parameter optimization failed') are "
    "discards; only the documented rbf_family values -2..4 and the documented num_neighbors / dist_eff / num_leaves "
    "arguments are generated; weighted-interpolant arguments are passed as call arguments of predict/linearize as "
    "documented",
    "in this OpenMDAO version training data of MetaModelUnStructuredComp is supplied through options['train_<name>'] "
    "(or training_data= of add_input/add_output); there are no train_* input variables, so set_val is not a route",
    "component-vs-surrogate comparison trusts that training is deterministic for identical arrays (rtol 1e-9)",
]
BOUND = {'quick': '4 units x 420 cases', 'thorough': '16 units x 1900 cases'}
MIN_CLASS_FRACTION = {'judged_interp': 0.25, 'judged_lin': 0.25, 'comp': 0.1, 'kind_surr': 0.4}
UNIT_TIMEOUT = {'quick': 3000, 'thorough': 14400}

EPS = float(np.finfo(float).eps)
ETA = 1.0e-3          # relative step (fraction of the training range) of the coarsest stencil level
COND_MAX = 1.0e8
KRIG_COND_MAX = 1.0e6


# ---------------------------------------------------------------------------------------------
# case decoding
# ---------------------------------------------------------------------------------------------

def nterms(n):
    return (n + 1) * (n + 2) // 2


def grid_u(case):
    """Normalised (box fraction) training inputs, shape (m, n)."""
    ks = case['k']
    n = len(ks)
    idx = np.array(np.meshgrid(*[np.arange(k) for k in ks], indexing='ij')).reshape(n, -1).T.astype(float)
    m = idx.shape[0]
    jit = np.array(case['jit'], dtype=float).reshape(m, n) / 100.0
    return (idx + jit) / (np.array(ks, dtype=float) - 1.0)


def to_x(case, u):
    return np.array(case['lo'], dtype=float) + np.array(case['span'], dtype=float) * np.asarray(u, dtype=float)


def monomials(u):
    """[1, u_1..u_n, u_i*u_j (i<=j)] for each row of u; shape (rows, nterms)."""
    u = np.atleast_2d(u)
    n = u.shape[1]
    cols = [np.ones(u.shape[0])] + [u[:, i] for i in range(n)]
    for i in range(n):
        for j in range(i, n):
            cols.append(u[:, i] * u[:, j])
    return np.column_stack(cols)


def g_fun(ydef, col, u):
    """The generating function of output column `col` at box fractions u (rows)."""
    u = np.atleast_2d(u)
    mode = ydef['mode']
    if mode == 'quad':
        c = np.array(ydef['c'][col], dtype=float) / 4.0
        return monomials(u) @ c
    if mode == 'smooth':
        out = np.zeros(u.shape[0])
        for (a, w, ph) in ydef['t'][col]:
            wv = np.array(w, dtype=float)
            out += (a / 4.0) * np.sin(u @ wv + ph / 4.0)
        return out
    raise ValueError(mode)


def g_grad(ydef, col, u):
    """d g / d u for the quadratic mode at a single point u (n,)."""
    n = u.size
    c = np.array(ydef['c'][col], dtype=float) / 4.0
    grad = c[1:n + 1].copy()
    t = n + 1
    for i in range(n):
        for j in range(i, n):
            if i == j:
                grad[i] += 2.0 * c[t] * u[i]
            else:
                grad[i] += c[t] * u[j]
                grad[j] += c[t] * u[i]
            t += 1
    return grad


def train_y(case, U):
    """Training outputs, shape (m, p)."""
    ydef = case['y']
    p = case['p']
    m = U.shape[0]
    Y = np.zeros((m, p))
    for o in range(p):
        if ydef['mode'] == 'raw':
            g = np.array(ydef['v'], dtype=float).reshape(m, p)[:, o] / 100.0
        else:
            g = g_fun(ydef, o, U)
        Y[:, o] = case['yoff'][o] + case['yscale'][o] * g
    return Y


def truth(case, col, u):
    return case['yoff'][col] + case['yscale'][col] * g_fun(case['y'], col, u)


def truth_grad_x(case, col, u):
    return case['yscale'][col] * g_grad(case['y'], col, np.asarray(u, dtype=float)) / np.array(case['span'], dtype=float)


# ---------------------------------------------------------------------------------------------
# surrogates
# ---------------------------------------------------------------------------------------------

def build(spec):
    """(surrogate, call kwargs for predict/linearize)."""
    t = spec['type']
    if t == 'rs':
        from openmdao.surrogate_models.response_surface import ResponseSurface
        return ResponseSurface(), {}
    if t == 'kriging':
        from openmdao.surrogate_models.kriging import KrigingSurrogate
        kw = {}
        if spec.get('nugget') is not None:
            nug = spec['nugget']
            kw['nugget'] = np.array(nug, dtype=float) if isinstance(nug, list) else float(nug)
        if spec.get('eval_rmse') is not None:
            kw['eval_rmse'] = bool(spec['eval_rmse'])
        if spec.get('lapack_driver') is not None:
            kw['lapack_driver'] = spec['lapack_driver']
        return KrigingSurrogate(**kw), {}
    if t == 'nn':
        from openmdao.surrogate_models.nearest_neighbor import NearestNeighbor
        kw = {}
        call = {}
        it = spec.get('interp')
        if it is not None:
            kw['interpolant_type'] = it
        if spec.get('num_leaves') is not None:
            kw['num_leaves'] = spec['num_leaves']
        if it in (None, 'rbf'):
            for key in ('num_neighbors', 'rbf_family'):
                if spec.get(key) is not None:
                    kw[key] = spec[key]
        elif it == 'weighted':
            for key in ('num_neighbors', 'dist_eff'):
                if spec.get(key) is not None:
                    call[key] = spec[key]
        return NearestNeighbor(**kw), call
    raise ValueError(t)


def spec_label(spec):
    t = spec['type']
    if t == 'nn':
        return 'nn_' + (spec.get('interp') or 'rbf')
    return t


def nn_neighbors_needed(spec, n):
    it = spec.get('interp') or 'rbf'
    if it == 'linear':
        return n + 1
    return spec.get('num_neighbors') if spec.get('num_neighbors') is not None else 5


def predict_vec(sur, call, x):
    """predict at one point -> 1-D array of the output columns (rmse dropped)."""
    out = sur.predict(np.array(x, dtype=float), **call)
    if isinstance(out, tuple):
        out = out[0]
    return np.asarray(out, dtype=float).ravel()


def linearize_mat(sur, call, x, p, n):
    jac = sur.linearize(np.array(x, dtype=float), **call)
    jac = np.asarray(jac, dtype=float)
    if jac.size != p * n:
        raise _ShapeError(f"linearize returned shape {jac.shape} for {p} outputs x {n} inputs")
    if jac.ndim >= 2 and jac.shape[-2:] != (p, n) and jac.shape != (p, n):
        raise _ShapeError(f"linearize returned shape {jac.shape} for {p} outputs x {n} inputs")
    return jac.reshape(p, n)


class _ShapeError(Exception):
    pass


# ---------------------------------------------------------------------------------------------
# conditioning measures (independent of the code under test except where stated)
# ---------------------------------------------------------------------------------------------

def normalise_nn(X):
    """Unit-hypercube scaling documented in NNBase."""
    lo = X.min(axis=0)
    rng = X.max(axis=0) - lo
    rng = np.where(rng == 0, 1.0, rng)
    return (X - lo) / rng, lo, rng


def sorted_dists(tp, qn):
    d = np.sqrt(np.sum((tp - qn) ** 2, axis=1))
    order = np.argsort(d, kind='stable')
    return d[order], order


def simplex_amp(tp, order, n):
    """1 + 2*sqrt(n)/sigma_min of the edge matrix of the n+1 nearest neighbours (normalised coordinates)."""
    nb = order[:n + 1]
    E = tp[nb[1:]] - tp[nb[0]]
    smin = np.linalg.svd(E, compute_uv=False)[-1]
    if smin <= 0.0:
        return np.inf
    return 1.0 + 2.0 * np.sqrt(n) / smin


def kriging_R(X, thetas, nugget):
    mean = X.mean(axis=0)
    std = X.std(axis=0)
    std = np.where(std == 0, 1.0, std)
    Xn = (X - mean) / std
    d2 = (Xn[:, None, :] - Xn[None, :, :]) ** 2
    R = np.exp(-np.sum(d2 * np.asarray(thetas, dtype=float), axis=2))
    R[np.diag_indices_from(R)] = 1.0 + nugget
    return R


def rs_design_cond(X):
    A = monomials(X)
    s = np.linalg.svd(A, compute_uv=False)
    if s[-1] <= 0:
        return np.inf
    return float(s[0] / s[-1])


def bucket(label, amp):
    if not np.isfinite(amp):
        return f"{label}:cond=inf"
    k = int(np.floor(np.log10(max(amp, 1.0))))
    k = min(k - k % 2, 10)
    return f"{label}:cond<1e{k + 2}"


# ---------------------------------------------------------------------------------------------
# Richardson-gated central difference
# ---------------------------------------------------------------------------------------------

def fd_oracle(f, x, hvec, amp, yscale):
    """4th-order central differences of f at three nested steps (h, h/2, h/4 per dimension).

    Returns D (p, n), tol (p, n), ok (p, n) bool (converged and kink-free), gscale (p, n)."""
    n = x.size
    f0 = f(x)
    p = f0.size
    D = np.zeros((p, n))
    tol = np.zeros((p, n))
    ok = np.zeros((p, n), dtype=bool)
    for j in range(n):
        s = hvec[j] / 4.0
        F = {}
        for k in (1, 2, 4, 8):
            for sg in (1, -1):
                xx = x.copy()
                xx[j] += sg * k * s
                F[sg * k] = f(xx)
        if not all(np.all(np.isfinite(v)) for v in F.values()) or not np.all(np.isfinite(f0)):
            continue

        def d4(k):
            return (-F[2 * k] + 8.0 * F[k] - 8.0 * F[-k] + F[-2 * k]) / (12.0 * k * s)

        def dp(k):
            return (-3.0 * f0 + 4.0 * F[k] - F[2 * k]) / (2.0 * k * s)

        def dm(k):
            return (3.0 * f0 - 4.0 * F[-k] + F[-2 * k]) / (2.0 * k * s)

        D1, D2, D4_ = d4(1), d4(2), d4(4)
        e1 = np.abs(D4_ - D2)
        e2 = np.abs(D2 - D1)
        K1 = np.abs(dp(1) - dm(1))
        K2 = np.abs(dp(2) - dm(2))
        fmax = np.max(np.abs(np.array(list(F.values()))), axis=0)
        floor = 200.0 * EPS * amp * (fmax + np.abs(yscale)) / s
        conv = (e2 <= np.maximum(e1 / 3.0, floor)) & (K1 <= 0.6 * K2 + 8.0 * floor)
        D[:, j] = D1
        tol[:, j] = 4.0 * e2 + 2.0 * floor
        ok[:, j] = conv
    return D, tol, ok


# ---------------------------------------------------------------------------------------------
# known-finding predicates (computed from the input)
# ---------------------------------------------------------------------------------------------

def known_weighted_at_train(spec, at_train):
    """F28a: weighted interpolant, linearize queried exactly at a training point (0**-p -> inf*0 -> NaN)."""
    return spec['type'] == 'nn' and spec.get('interp') == 'weighted' and bool(at_train)


def known_stale_cache(spec):
    """F28c: weighted / rbf gradient() re-uses the neighbour distances cached by the last __call__ when the two points
    are numpy.allclose (rtol 1e-5) instead of equal."""
    return spec['type'] == 'nn' and (spec.get('interp') or 'rbf') in ('weighted', 'rbf')


def known_rbf1_1d(spec, n):
    """F28d: rbf interpolant, ONE input, rbf_family=1: _find_dR uses +T(1-T)^2 for dR/dT (the derivative of
    (1-T)^3 (1+3T)/12 is -T(1-T)^2), so the gradient has the wrong sign."""
    return spec['type'] == 'nn' and (spec.get('interp') or 'rbf') == 'rbf' and n == 1 and spec.get('rbf_family') == 1


def known_nn_before_rs(case):
    """F28e: vec_size=1 component in which an output with a NearestNeighbor surrogate is declared before an output with a
    ResponseSurface surrogate: the NN interpolators reshape the caller's input array in place to (1, n) and
    ResponseSurface.predict then indexes it as 1-D."""
    if case.get('kind') != 'comp' or case['vec'] != 1:
        return False
    types = [(sp if sp is not None else case['default'])['type'] for sp in case['persur']]
    return any(t == 'nn' and 'rs' in types[i + 1:] for i, t in enumerate(types))


def known_linear_1d_multi(spec, n, p):
    """F28b: linear interpolant with ONE input and >= 2 output columns: gradient() squeezes (1, 1, p) to (p,) and cannot
    store it in the (1, p, 1) result."""
    return spec['type'] == 'nn' and spec.get('interp') == 'linear' and n == 1 and p >= 2


# ---------------------------------------------------------------------------------------------
# per-surrogate judgement (shared by the surr and comp kinds)
# ---------------------------------------------------------------------------------------------

class Trained(object):
    """A trained surrogate with the conditioning measured for its interpolation system."""

    def __init__(self, spec, X, Y):
        self.spec = spec
        self.X = X
        self.Y = Y
        self.m, self.n = X.shape
        self.p = Y.shape[1]
        self.label = spec_label(spec)
        self.sur, self.call = build(spec)
        self.amp = 1.0            # global conditioning measure
        self.krig = None
        self.tp, self.tlo, self.trng = normalise_nn(X)
        self.yrng = np.where(np.ptp(Y, axis=0) == 0, 1.0, np.ptp(Y, axis=0))
        self.ymag = np.max(np.abs(Y), axis=0) + self.yrng

    def train(self):
        if self.spec['type'] == 'kriging':
            np.random.seed(0)
        self.sur.train(self.X.copy(), self.Y.copy())
        t = self.spec['type']
        if t == 'rs':
            self.amp = rs_design_cond(self.X)
        elif t == 'kriging':
            nug = self.spec.get('nugget')
            nug = 10.0 * EPS if nug is None else nug
            nugv = np.array(nug, dtype=float) if isinstance(nug, list) else float(nug)
            thetas = np.asarray(self.sur.thetas, dtype=float)
            R = kriging_R(self.X, thetas, nugv)
            s = np.linalg.svd(R, compute_uv=False)
            cond = float(s[0] / s[-1]) if s[-1] > 0 else np.inf
            self.amp = cond
            self.krig = {'cond': cond, 'smax': float(s[0]), 'nugmax': float(np.max(np.abs(nugv)))}
        elif t == 'nn' and (self.spec.get('interp') or 'rbf') == 'rbf':
            ip = self.sur.interpolant
            tdist, tloc = ip._KData.query(ip._tp, ip.N)
            Rt = ip._find_R(self.m, tdist[:, :-1] / tdist[:, -1:], tloc)
            s = np.linalg.svd(Rt, compute_uv=False)
            self.amp = float(s[0] / s[-1]) if s[-1] > 0 else np.inf

    # -- tolerances ---------------------------------------------------------------------------
    def point_amp(self, x):
        """Conditioning relevant for a prediction at x."""
        if self.label == 'nn_linear':
            qn = (x - self.tlo) / self.trng
            d, order = sorted_dists(self.tp, qn)
            return simplex_amp(self.tp, order, self.n)
        if self.label == 'nn_weighted':
            return 1.0
        return self.amp

    def fd_amp(self, x):
        """Amplification of the evaluation round-off of predict near x (relative to the output magnitude)."""
        if self.spec['type'] == 'rs':
            beta = np.linalg.lstsq(monomials(self.X), self.Y, rcond=None)[0]
            return float(np.max(np.abs(monomials(x[None, :])[0]) @ np.abs(beta) / self.ymag)) + 1.0
        return self.point_amp(x)

    def interp_tol(self, amp):
        """Absolute tolerance per output column for predict(x_train) == y_train."""
        if self.krig is not None:
            c = self.krig['cond']
            rel = (1e-8 * c) ** 2 / (1.0 + (1e-8 * c) ** 2) + self.krig['nugmax'] * c / self.krig['smax'] + 500.0 * EPS * c
            ystd = np.where(self.Y.std(axis=0) == 0, 1.0, self.Y.std(axis=0))
            return 2.0 * rel * np.sqrt(self.m) * ystd + 16 * EPS * self.ymag
        return 500.0 * EPS * amp * self.yrng + 16.0 * EPS * self.ymag

    # -- smoothness of the stencil ------------------------------------------------------------
    def stencil_ok(self, x, at_train):
        """None when the interpolant is provably smooth over the stencil around x, else a discard reason."""
        if self.spec['type'] != 'nn':
            return None
        qn = (x - self.tlo) / self.trng
        d, order = sorted_dists(self.tp, qn)
        delta = 2.0 * ETA            # stencil radius in normalised coordinates (8 * h/4 with h = ETA * range)
        K = nn_neighbors_needed(self.spec, self.n)
        margin = 2.0 * delta * 1.5 + 1e-9
        if K < self.m and d[K] - d[K - 1] <= margin:
            return 'lin:neighbour-set-may-change'
        if self.label == 'nn_rbf' and K >= 2 and d[K - 1] - d[K - 2] <= margin:
            return 'lin:rbf-support-neighbour-may-change'
        if not at_train and d[0] <= 10.0 * delta:
            return 'lin:query-near-training-point'
        if at_train:
            if self.label == 'nn_linear':
                return 'lin:linear-kink-at-training-point'
            if self.label == 'nn_rbf' and (self.spec.get('rbf_family') if self.spec.get('rbf_family') is not None else 2) == 0:
                return 'lin:rbf0-kink-at-training-point'
            if self.label == 'nn_weighted':
                de = self.spec.get('dist_eff') or 0
                de = self.n + 1 if de == 0 else de
                if de <= 1:
                    return 'lin:shepard-cone-at-training-point'
        return None


def _exc_sig(e, prefix):
    sig = core.repo_frame_signature(e, prefix)
    return sig


def judge_interp(tr, res, cls, pre=''):
    """predict(x_train) == y_train for interpolating surrogates; RS: only when the data is an exact quadratic."""
    worst = None
    judged = 0
    lab = tr.label
    ampmax = 1.0
    for i in range(tr.m):
        amp = tr.point_amp(tr.X[i])
        lim = KRIG_COND_MAX if tr.krig is not None else COND_MAX
        if not np.isfinite(amp) or amp > lim:
            res_dis = f"interp:{lab}:ill-conditioned"
            cls.append(res_dis)
            continue
        try:
            got = predict_vec(tr.sur, tr.call, tr.X[i])
        except Exception as e:
            sig = _exc_sig(e, f"{pre}predict:{lab}")
            if sig is None:
                raise
            res.fail(sig, f"predict at training point {i}: {type(e).__name__}: {e}")
            return judged
        if got.size != tr.p:
            res.fail(f"{pre}predict:{lab}:wrong-size", f"predict returned {got.size} values for {tr.p} outputs")
            return judged
        tol = tr.interp_tol(amp)
        err = np.abs(got - tr.Y[i])
        judged += 1
        ampmax = max(ampmax, amp)
        bad = ~(err <= tol)
        if np.any(bad):
            o = int(np.argmax(err / tol))
            if worst is None or err[o] / tol[o] > worst[0]:
                worst = (err[o] / tol[o], i, o, got[o], tr.Y[i, o], tol[o], amp)
    if worst is not None:
        res.fail(f"{pre}interp:{lab}:training-output-not-reproduced",
                 f"training point {worst[1]} col {worst[2]}: predict={worst[3]!r} y_train={worst[4]!r} tol={worst[5]:.3e} "
                 f"cond={worst[6]:.3e}")
    if judged:
        cls.append('judged_interp')
        cls.append(bucket(lab, ampmax))
    return judged


def judge_linearize(tr, x, at_train, res, cls, pre='', exact_grad=None, hist=False):
    """linearize(x) == derivative of predict at x. Returns True when at least one entry was judged."""
    lab = tr.label
    n, p = tr.n, tr.p
    f28a = known_weighted_at_train(tr.spec, at_train)
    f28b = known_linear_1d_multi(tr.spec, n, p)
    kpre = 'F28a|' if f28a else ('F28b|' if f28b else ('F28d|' if known_rbf1_1d(tr.spec, n) else ''))
    why = tr.stencil_ok(x, at_train)
    if why is not None:
        cls.append(why)
        return False
    amp = tr.point_amp(x)
    if not np.isfinite(amp) or amp > COND_MAX:
        cls.append(f"lin:{lab}:ill-conditioned")
        return False
    # the component calls predict(x) and then linearize(x): same order here
    try:
        predict_vec(tr.sur, tr.call, x)
        J = linearize_mat(tr.sur, tr.call, x, p, n)
    except _ShapeError as e:
        res.fail(f"{kpre}{pre}linearize:{lab}:wrong-shape", str(e))
        return False
    except Exception as e:
        sig = _exc_sig(e, f"{kpre}{pre}linearize:{lab}")
        if sig is None:
            raise
        res.fail(sig, f"linearize at {x.tolist()}: {type(e).__name__}: {e}")
        return False
    if not np.all(np.isfinite(J)):
        res.fail(f"{kpre}{pre}linearize:{lab}:non-finite", f"linearize at {x.tolist()} (at_train={at_train}) = {J.tolist()}")
        return False
    judged = False
    if exact_grad is not None:
        tolg = 500.0 * EPS * amp * (np.abs(exact_grad) + (tr.ymag[:, None] / tr.trng[None, :]))
        bad = np.abs(J - exact_grad) > tolg
        judged = True
        if np.any(bad):
            o, j = np.argwhere(bad)[0]
            res.fail(f"{pre}linearize:{lab}:differs-from-quadratic-gradient",
                     f"x={x.tolist()} entry ({o},{j}): linearize={J[o, j]!r} exact={exact_grad[o, j]!r} tol={tolg[o, j]:.3e}")
    hvec = ETA * tr.trng

    def f(z):
        return predict_vec(tr.sur, tr.call, z)
    try:
        with np.errstate(all='ignore'):
            D, tol, ok = fd_oracle(f, x.copy(), hvec, tr.fd_amp(x), tr.ymag)
    except Exception as e:
        sig = _exc_sig(e, f"{pre}predict:{lab}")
        if sig is None:
            raise
        res.fail(sig, f"predict near {x.tolist()}: {type(e).__name__}: {e}")
        return judged
    gscale = np.maximum(np.abs(D), tr.yrng[:, None] / tr.trng[None, :])
    strong = ok & (tol <= 1e-4 * gscale)
    ninc = int(np.sum(~strong))
    if ninc:
        cls.append(f"lin:{lab}:inconclusive-entries")
    if np.any(strong):
        judged = True
        tolf = tol + 1e-9 * np.abs(D)
        bad = strong & (np.abs(J - D) > tolf)
        if np.any(bad):
            o, j = np.argwhere(bad)[0]
            res.fail(f"{kpre}{pre}linearize:{lab}:differs-from-central-difference",
                     f"x={x.tolist()} at_train={at_train} entry ({o},{j}): linearize={J[o, j]!r} fd={D[o, j]!r} "
                     f"tol={tolf[o, j]:.3e} cond={amp:.3e}")
        elif hist and tr.spec['type'] == 'nn':
            # linearize(x) must be the derivative at x whatever point was predicted before: predict at a point that
            # differs from x by half of numpy.allclose's default tolerance (normalised coordinates), then linearize(x)
            qn = (x - tr.tlo) / tr.trng
            xnear = x + 0.5 * (1e-8 + 1e-5 * np.abs(qn)) * tr.trng
            predict_vec(tr.sur, tr.call, xnear)
            J2 = linearize_mat(tr.sur, tr.call, x, p, n)
            cls.append('lin:history-probe')
            bad2 = strong & ~(np.abs(J2 - D) <= tolf)
            if np.any(bad2):
                o, j = np.argwhere(bad2)[0]
                res.fail(f"F28c|{pre}linearize:{lab}:depends-on-previously-predicted-point",
                         f"x={x.tolist()} predict({xnear.tolist()}) then linearize(x): entry ({o},{j}) = {J2[o, j]!r}; after "
                         f"predict(x): {J[o, j]!r}; fd={D[o, j]!r} tol={tolf[o, j]:.3e}")
    if judged:
        cls.append('judged_lin')
        cls.append(f"lin:{lab}" + (':at_train' if at_train else ''))
    return judged


# ---------------------------------------------------------------------------------------------
# check: surrogate level
# ---------------------------------------------------------------------------------------------

def check_surr(case):
    res = Result()
    cls = ['kind_surr']
    spec = case['sur']
    U = grid_u(case)
    X = to_x(case, U)
    Y = train_y(case, U)
    m, n = X.shape
    p = case['p']
    tr = Trained(spec, X, Y)
    lab = tr.label
    cls.append(lab)
    cls.append(f"n{n}")
    cls.append(f"p{p}")
    cls.append('y_' + case['y']['mode'])
    if spec['type'] == 'nn':
        if m < nn_neighbors_needed(spec, n):
            # too few points for the requested neighbours: documented rejection, not judged
            res.discard = f"{lab}:fewer-training-points-than-neighbours"
            res.classes = cls
            return res
    try:
        tr.train()
    except Exception as e:
        if spec['type'] == 'kriging' and isinstance(e, ValueError) and 'optimization failed' in str(e):
            res.discard = 'kriging:hyper-parameter-optimisation-failed (documented raise)'
            res.classes = cls
            return res
        sig = _exc_sig(e, f"train:{lab}")
        if sig is None:
            raise
        res.fail(sig, f"{type(e).__name__}: {e}")
        res.classes = cls
        return res

    judged = 0
    quad = case['y']['mode'] == 'quad'
    # ---- absolute clause ------------------------------------------------------------------
    if spec['type'] == 'rs':
        if quad:
            amp = tr.amp
            if not np.isfinite(amp) or amp > COND_MAX:
                cls.append('interp:rs:ill-conditioned')
            else:
                pts = [np.array(q, dtype=float) / 100.0 for q in case['q']] + [U[i] for i in case['qt']]
                beta = np.linalg.lstsq(monomials(X), Y, rcond=None)[0]      # only its norm is used (tolerance)
                for u in pts:
                    x = to_x(case, u)
                    try:
                        got = predict_vec(tr.sur, tr.call, x)
                    except Exception as e:
                        sig = _exc_sig(e, 'predict:rs')
                        if sig is None:
                            raise
                        res.fail(sig, f"{type(e).__name__}: {e}")
                        break
                    exp = np.array([truth(case, o, u)[0] for o in range(p)])
                    # tolerance: lstsq on a consistent system: |dbeta| <= eps*cond*|beta| ; prediction error <= |phi(x)| |dbeta|
                    Phi = monomials(x[None, :])[0]
                    tol = 200.0 * EPS * amp * np.linalg.norm(Phi) * np.linalg.norm(beta, axis=0) + 16 * EPS * tr.ymag
                    err = np.abs(got - exp)
                    judged += 1
                    if np.any(err > tol):
                        o = int(np.argmax(err / tol))
                        res.fail('rs:quadratic-not-reproduced',
                                 f"x={x.tolist()} col {o}: predict={got[o]!r} quadratic={exp[o]!r} tol={tol[o]:.3e} cond={amp:.3e}")
                        break
                if judged:
                    cls.append('judged_interp')
                    cls.append(bucket('rs', amp))
    else:
        judged += judge_interp(tr, res, cls)
        # Kriging: eval_rmse must not change the mean and the rmse must be a finite non-negative number
        if spec['type'] == 'kriging' and spec.get('eval_rmse') and not res.violations:
            out = tr.sur.predict(X[0].copy())
            if not (isinstance(out, tuple) and len(out) == 2):
                res.fail('kriging:eval_rmse-no-tuple', repr(type(out)))
            else:
                rm = np.asarray(out[1], dtype=float).ravel()
                if not (rm.size == p and np.all(np.isfinite(rm)) and np.all(rm >= 0)):
                    res.fail('kriging:rmse-not-finite-nonnegative', rm.tolist())
                elif tr.krig['cond'] <= KRIG_COND_MAX:
                    # mse_i = (1 - r R+ r) sigma2 ; at a training point |1 - r R+ r| <= nug + 1e-16 smax cond + nug^2 cond/smax
                    # (+ round-off) and sigma2 <= p Y_std^2 cond / smax
                    c, smax, nug = tr.krig['cond'], tr.krig['smax'], tr.krig['nugmax']
                    relb = nug + 1e-16 * smax * c + nug ** 2 * c / smax + 500.0 * EPS * c
                    ystd = np.where(Y.std(axis=0) == 0, 1.0, Y.std(axis=0))
                    bound = 2.0 * ystd * np.sqrt(relb * p * c / smax)
                    if np.any(rm > bound):
                        res.fail('kriging:rmse-at-training-point-not-small',
                                 f"rmse={rm.tolist()} bound={bound.tolist()} cond={c:.3e} nugget={nug}")
            cls.append('kriging_rmse')

    # ---- derivative clause ----------------------------------------------------------------
    linj = 0
    if not any(s.startswith(('train', 'predict')) for s, _ in res.violations):
        pts = [(np.array(q, dtype=float) / 100.0, False) for q in case['q']] + [(U[i], True) for i in case['qt']]
        for u, at_train in pts:
            x = to_x(case, u)
            exact = None
            if spec['type'] == 'rs' and quad and np.isfinite(tr.amp) and tr.amp <= COND_MAX:
                exact = np.array([truth_grad_x(case, o, u) for o in range(p)])
            if judge_linearize(tr, x, at_train, res, cls, exact_grad=exact, hist=bool(case.get('hist'))):
                linj += 1
    res.nontrivial = (n >= 2 and p >= 2 and (judged + linj) > 0)
    res.classes = sorted(set(cls))
    return res


# ---------------------------------------------------------------------------------------------
# check: component level
# ---------------------------------------------------------------------------------------------

def _partition(total, sizes):
    out = []
    k = 0
    for s in sizes:
        out.append(list(range(k, k + s)))
        k += s
    assert k == total, (total, sizes)
    return out


def check_comp(case):
    import openmdao.api as om
    res = Result()
    cls = ['comp', 'kind_comp']
    U = grid_u(case)
    X = to_x(case, U)
    Y = train_y(case, U)
    m, n = X.shape
    p = case['p']
    v = case['vec']
    incols = _partition(n, case['insplit'])
    outcols = _partition(p, case['outsplit'])
    nout = len(outcols)
    specs = []
    for o in range(nout):
        sp = case['persur'][o] if case['persur'][o] is not None else case['default']
        specs.append(sp)
    cls.append(f"vec{v}")
    cls.append('comp_default' if case['default'] is not None else 'comp_no_default')
    if any(s is not None for s in case['persur']):
        cls.append('comp_per_output')
    cls.append('comp_how_' + case['how'])
    for sp in specs:
        cls.append('comp_' + spec_label(sp))
        if sp['type'] == 'nn' and m < nn_neighbors_needed(sp, n):
            res.discard = f"{spec_label(sp)}:fewer-training-points-than-neighbours"
            res.classes = cls
            return res

    # rows to evaluate
    rows_u = []
    rows_train = []
    for r in case['rows']:
        if isinstance(r, dict) and 'near' in r:
            base = rows_u[r['near'] % len(rows_u)]
            rows_u.append(base + 0.4 * (1e-8 + 1e-5 * np.abs(base)))      # inside numpy.allclose's default tolerance
            rows_train.append(None)
        elif isinstance(r, dict):
            rows_u.append(U[r['t'] % m])
            rows_train.append(r['t'] % m)
        else:
            rows_u.append(np.array(r, dtype=float) / 100.0)
            rows_train.append(None)
    rows_x = np.array([to_x(case, u) for u in rows_u])

    # ---- reference surrogates, trained directly ----------------------------------------------
    refs = []
    for o in range(nout):
        tr = Trained(specs[o], X, Y[:, outcols[o]])
        try:
            tr.train()
        except Exception as e:
            if specs[o]['type'] == 'kriging' and isinstance(e, ValueError) and 'optimization failed' in str(e):
                res.discard = 'kriging:hyper-parameter-optimisation-failed (documented raise)'
                res.classes = cls
                return res
            sig = _exc_sig(e, f"train:{tr.label}")
            if sig is None:
                raise
            res.discard = 'comp:reference-surrogate-training-raises (judged by the surr kind)'
            res.classes = cls
            return res
        refs.append(tr)

    def tdata_in(i, Xd):
        cols = incols[i]
        if len(cols) == 1 and case.get('scalar_lists', True):
            return [float(t) for t in Xd[:, cols[0]]]
        return np.array(Xd[:, cols])

    def tdata_out(o, Yd):
        cols = outcols[o]
        if len(cols) == 1 and case.get('scalar_lists', True):
            return [float(t) for t in Yd[:, cols[0]]]
        return np.array(Yd[:, cols])

    retrain = bool(case.get('retrain'))
    Y_first = (1.0 - Y) if retrain else Y      # a different data set first, then the real one

    def make_problem(mode):
        prob = om.Problem(reports=False)
        ivc = prob.model.add_subsystem('iv', om.IndepVarComp())
        kw = {'vec_size': v} if v > 1 or case.get('explicit_vec1') else {}
        if case['default'] is not None and case.get('default_via', 'ctor') == 'ctor':
            kw['default_surrogate'] = build(case['default'])[0]
        mm = om.MetaModelUnStructuredComp(**kw)
        if case['default'] is not None and case.get('default_via', 'ctor') == 'option':
            mm.options['default_surrogate'] = build(case['default'])[0]
        how = case['how']
        def var_val(sz):
            if v == 1:
                return 0.0 if sz == 1 else np.zeros(sz)
            if sz == 1 and case.get('flat_vec', False):
                return np.zeros(v)
            return np.zeros((v, sz))
        for i, cols in enumerate(incols):
            val = var_val(len(cols))
            ivc.add_output(f"x{i}", val=val)
            if how == 'add':
                mm.add_input(f"x{i}", val, training_data=tdata_in(i, X))
            else:
                mm.add_input(f"x{i}", val)
        for o, cols in enumerate(outcols):
            val = var_val(len(cols))
            kwo = {}
            if case['persur'][o] is not None:
                kwo['surrogate'] = build(case['persur'][o])[0]
            if how == 'add':
                kwo['training_data'] = tdata_out(o, Y_first)
            mm.add_output(f"y{o}", val, **kwo)
        prob.model.add_subsystem('mm', mm)
        for i in range(len(incols)):
            prob.model.connect(f"iv.x{i}", f"mm.x{i}")
        prob.setup(mode=mode)
        if how == 'options':
            for i in range(len(incols)):
                mm.options[f"train_x{i}"] = tdata_in(i, X)
            for o in range(nout):
                mm.options[f"train_y{o}"] = tdata_out(o, Y_first)
        return prob, mm

    def set_rows(prob):
        for i, cols in enumerate(incols):
            val = rows_x[:, cols]          # (v, sz)
            cur = prob.get_val(f"iv.x{i}")
            prob.set_val(f"iv.x{i}", val.reshape(cur.shape))

    modes = ['fwd', 'rev']
    if any(sp['type'] == 'kriging' for sp in specs):
        modes = [case.get('mode', 'fwd')]
    # expected values from the reference surrogates
    exp_out = []
    exp_lin = []
    try:
        for o in range(nout):
            eo = np.array([predict_vec(refs[o].sur, refs[o].call, rows_x[r]) for r in range(v)])      # (v, sz_o)
            el = []
            for r in range(v):
                predict_vec(refs[o].sur, refs[o].call, rows_x[r])
                el.append(linearize_mat(refs[o].sur, refs[o].call, rows_x[r], len(outcols[o]), n))
            exp_out.append(eo)
            exp_lin.append(np.array(el))                                                                # (v, sz_o, n)
    except Exception as e:
        res.discard = 'comp:reference-surrogate-raises (judged by the surr kind)'
        res.classes = cls
        return res
    if not all(np.all(np.isfinite(a)) for a in exp_lin):
        res.discard = 'comp:reference-linearize-non-finite (judged by the surr kind)'
        res.classes = cls
        return res

    judged = 0
    for mode in modes:
        cls.append('comp_' + mode)
        try:
            np.random.seed(0)
            prob, mm = make_problem(mode)
            set_rows(prob)
            prob.run_model()
            if retrain:
                for o in range(nout):
                    mm.options[f"train_y{o}"] = tdata_out(o, Y)
                mm.train = True
                prob.run_model()
            outs = [np.array(prob.get_val(f"mm.y{o}"), dtype=float) for o in range(nout)]
            of = [f"mm.y{o}" for o in range(nout)]
            wrt = [f"iv.x{i}" for i in range(len(incols))]
            J = prob.compute_totals(of=of, wrt=wrt)
        except Exception as e:
            if 'Kriging Hyper-parameter optimization failed' in str(e) and any(sp['type'] == 'kriging' for sp in specs):
                # documented raise of KrigingSurrogate.train (e.g. the first data set of a retraining case is degenerate)
                res.discard = 'kriging:hyper-parameter-optimisation-failed (documented raise)'
                res.classes = cls
                return res
            sig = _exc_sig(e, ('F28e|' if known_nn_before_rs(case) else '') + 'comp')
            if sig is None:
                raise
            res.fail(sig, f"mode={mode}: {type(e).__name__}: {e}")
            break
        for o in range(nout):
            szo = len(outcols[o])
            got = outs[o].reshape(v, szo)
            scale = refs[o].ymag
            # differential clause: component output == surrogate.predict
            if not np.all(np.abs(got - exp_out[o]) <= 1e-9 * scale):
                r, c = np.argwhere(~(np.abs(got - exp_out[o]) <= 1e-9 * scale))[0]
                res.fail(f"comp:{refs[o].label}:output-differs-from-surrogate-predict",
                         f"mode={mode} output y{o} row {r} col {c}: comp={got[r, c]!r} predict={exp_out[o][r, c]!r}")
            judged += 1
            # absolute clause on training rows / quadratics
            for r in range(v):
                tr = refs[o]
                if tr.spec['type'] == 'rs':
                    if case['y']['mode'] == 'quad' and np.isfinite(tr.amp) and tr.amp <= COND_MAX:
                        exp = np.array([truth(case, c, rows_u[r])[0] for c in outcols[o]])
                        Phi = monomials(rows_x[r][None, :])[0]
                        beta = np.linalg.lstsq(monomials(X), tr.Y, rcond=None)[0]
                        tol = 200.0 * EPS * tr.amp * np.linalg.norm(Phi) * np.linalg.norm(beta, axis=0) + 16 * EPS * tr.ymag
                        if np.any(np.abs(got[r] - exp) > tol):
                            res.fail('comp:rs:quadratic-not-reproduced',
                                     f"mode={mode} y{o} row {r}: comp={got[r].tolist()} quadratic={exp.tolist()} tol={tol.tolist()}")
                        cls.append('comp_abs_judged')
                elif rows_train[r] is not None:
                    amp = tr.point_amp(rows_x[r])
                    lim = KRIG_COND_MAX if tr.krig is not None else COND_MAX
                    if np.isfinite(amp) and amp <= lim:
                        tol = tr.interp_tol(amp)
                        exp = tr.Y[rows_train[r]]
                        if np.any(np.abs(got[r] - exp) > tol):
                            res.fail(f"comp:{tr.label}:training-output-not-reproduced",
                                     f"mode={mode} y{o} row {r} (training point {rows_train[r]}): comp={got[r].tolist()} "
                                     f"y_train={exp.tolist()} tol={tol.tolist()}")
                        cls.append('comp_abs_judged')
            # partials
            for i, cols in enumerate(incols):
                szi = len(cols)
                blk = np.asarray(J[(f"mm.y{o}", f"iv.x{i}")], dtype=float)
                expJ = np.zeros((v * szo, v * szi))
                for r in range(v):
                    expJ[r * szo:(r + 1) * szo, r * szi:(r + 1) * szi] = exp_lin[o][r][:, cols]
                if blk.shape != expJ.shape:
                    res.fail(f"comp:{refs[o].label}:total-wrong-shape", f"mode={mode} d y{o}/d x{i}: {blk.shape} expected {expJ.shape}")
                    continue
                tolJ = 1e-9 * (np.max(np.abs(expJ)) + refs[o].yrng.max() / refs[o].trng.min())
                if not np.all(np.abs(blk - expJ) <= tolJ):
                    r, c = np.argwhere(~(np.abs(blk - expJ) <= tolJ))[0]
                    near = v > 1 and isinstance(case['rows'][-1], dict) and 'near' in case['rows'][-1]
                    kp = 'F28c|' if (near and known_stale_cache(specs[o])) else ''
                    res.fail(f"{kp}comp:{refs[o].label}:total-differs-from-surrogate-linearize",
                             f"mode={mode} vec={v} d y{o}/d x{i} entry ({r},{c}): total={blk[r, c]!r} linearize={expJ[r, c]!r}")
    if retrain:
        cls.append('comp_retrain')
    if v > 1 and isinstance(case['rows'][-1], dict) and 'near' in case['rows'][-1]:
        cls.append('comp_near_rows')
    res.nontrivial = (n >= 2 and p >= 2 and judged > 0)
    res.classes = sorted(set(cls))
    return res


def check(case):
    if case['kind'] == 'comp':
        return check_comp(case)
    return check_surr(case)


# ---------------------------------------------------------------------------------------------
# strategies
# ---------------------------------------------------------------------------------------------

GRIDS = {
    'nn': {1: [[4], [5], [6], [8], [11], [16]],
           2: [[3, 3], [3, 4], [4, 3], [4, 4], [2, 5], [5, 5], [4, 6]],
           3: [[2, 2, 3], [3, 2, 2], [2, 3, 3], [3, 3, 3], [2, 2, 2], [3, 3, 4]]},
    'rs': {1: [[3], [4], [5], [7]],
           2: [[3, 3], [3, 4], [4, 3], [4, 4]],
           3: [[3, 3, 3], [3, 4, 3]]},
    'kriging': {1: [[3], [4], [6], [8], [12]],
                2: [[2, 2], [3, 3], [3, 4], [4, 3], [2, 5], [2, 6]],
                3: [[2, 2, 2], [2, 2, 3], [3, 2, 2], [2, 3, 2]]},
}


def strategy(tier):
    from hypothesis import strategies as st

    def sur_spec(draw, family, m, n, in_comp=False):
        if family == 'rs':
            return {'type': 'rs'}
        if family == 'kriging':
            sp = {'type': 'kriging'}
            nug = draw(st.sampled_from(['zero', 'zero', 'default', 1e-12, 1e-10, 'array']))
            if nug == 'zero':
                sp['nugget'] = 0.0
            elif nug == 'array':
                sp['nugget'] = [draw(st.sampled_from([0.0, 1e-12, 1e-11])) for _ in range(m)]
            elif nug != 'default':
                sp['nugget'] = nug
            if draw(st.booleans()):
                sp['eval_rmse'] = draw(st.booleans())
            if draw(st.booleans()):
                sp['lapack_driver'] = draw(st.sampled_from(['gesvd', 'gesdd']))
            return sp
        it = draw(st.sampled_from(['linear', 'weighted', 'rbf', 'rbf', 'default']))
        if in_comp and it == 'weighted' and m < 5:
            it = 'linear'      # the component cannot pass num_neighbors to the weighted interpolant (default 5 > m: documented raise)
        sp = {'type': 'nn'}
        if it != 'default':
            sp['interp'] = it
        if draw(st.integers(0, 3)) == 0:
            sp['num_leaves'] = draw(st.sampled_from([1, 2, 3, 5]))
        if in_comp and it == 'weighted':
            return sp          # num_neighbors / dist_eff are call arguments: not reachable through the component
        if it != 'linear':
            # num_neighbors <= m always (fewer points is a documented rejection); the default is 5
            cands = [k for k in (2, 3, 4, 5, 6, 8) if k <= m]
            if m < 5 or draw(st.booleans()):
                sp['num_neighbors'] = draw(st.sampled_from(cands))
            if it == 'weighted':
                if draw(st.booleans()):
                    sp['dist_eff'] = draw(st.sampled_from([0, 1, 2, 3, 2.5, 4]))
            elif draw(st.booleans()):
                sp['rbf_family'] = draw(st.sampled_from([-2, -1, 0, 1, 2, 3, 4]))
        return sp

    def ydef(draw, n, p, m, family, force_quad=False):
        mode = 'quad' if force_quad else draw(st.sampled_from(['smooth', 'smooth', 'raw', 'quad']))
        if mode == 'quad':
            c = [[draw(st.integers(-8, 8)) for _ in range(nterms(n))] for _ in range(p)]
            return {'mode': 'quad', 'c': c}
        if mode == 'smooth':
            t = []
            for _ in range(p):
                nt = draw(st.integers(1, 2))
                t.append([[draw(st.integers(1, 8)), [draw(st.integers(-6, 6)) for _ in range(n)], draw(st.integers(0, 24))]
                          for _ in range(nt)])
            return {'mode': 'smooth', 't': t}
        return {'mode': 'raw', 'v': [draw(st.integers(-100, 100)) for _ in range(m * p)]}

    @st.composite
    def training(draw, family, pmax, force_quad=False):
        n = draw(st.sampled_from([1, 2, 2, 3]))
        ks = draw(st.sampled_from(GRIDS[family][n]))
        m = int(np.prod(ks))
        p = draw(st.integers(1, pmax))
        case = {'k': ks,
                'jit': [draw(st.integers(-30, 30)) for _ in range(m * n)],
                'lo': [draw(st.integers(-10, 10)) / 2.0 for _ in range(n)],
                'span': [draw(st.sampled_from([0.25, 1.0, 1.0, 2.0, 4.0, 10.0])) for _ in range(n)],
                'p': p}
        case['y'] = ydef(draw, n, p, m, family, force_quad)
        case['yoff'] = [float(draw(st.integers(-5, 5))) for _ in range(p)]
        case['yscale'] = [draw(st.sampled_from([0.01, 0.5, 1.0, 1.0, 3.0, 100.0])) for _ in range(p)]
        return case, n, m, p

    @st.composite
    def surr_case(draw):
        family = draw(st.sampled_from(['rs', 'nn', 'nn', 'nn', 'nn', 'kriging', 'kriging']))
        case, n, m, p = draw(training(family, 2, force_quad=(family == 'rs' and draw(st.integers(0, 3)) > 0)))
        case['kind'] = 'surr'
        case['sur'] = sur_spec(draw, family, m, n)
        nq = draw(st.integers(1, 3))
        case['q'] = [[draw(st.integers(-10, 110)) for _ in range(n)] for _ in range(nq)]
        nt = draw(st.integers(0, 2))
        case['qt'] = [draw(st.integers(0, m - 1)) for _ in range(nt)]
        case['hist'] = draw(st.integers(0, 3)) == 0
        return case

    @st.composite
    def comp_case(draw):
        # all surrogates of one component share the training inputs, so the grid family is the most restrictive one
        fams = draw(st.sampled_from([['nn'], ['rs'], ['kriging'], ['nn', 'rs'], ['nn', 'nn'], ['nn', 'kriging'], ['rs', 'kriging']]))
        gridfam = 'kriging' if 'kriging' in fams else ('rs' if 'rs' in fams else 'nn')
        if 'rs' in fams and gridfam == 'kriging':
            gridfam = 'rs'
        case, n, m, p = draw(training(gridfam, 3, force_quad=('rs' in fams and draw(st.booleans()))))
        if gridfam == 'rs' and 'kriging' in fams and m > 12:
            # keep Kriging training sets small
            fams = [f for f in fams if f != 'kriging'] or ['rs']
        case['kind'] = 'comp'
        # outputs: partition of the p columns
        if p == 1:
            outsplit = [1]
        elif p == 2:
            outsplit = draw(st.sampled_from([[1, 1], [2]]))
        else:
            outsplit = draw(st.sampled_from([[1, 1, 1], [2, 1], [1, 2], [3]]))
        if n == 1:
            insplit = [1]
        elif n == 2:
            insplit = draw(st.sampled_from([[1, 1], [2]]))
        else:
            insplit = draw(st.sampled_from([[1, 1, 1], [2, 1], [1, 2], [3]]))
        case['outsplit'] = outsplit
        case['insplit'] = insplit
        nout = len(outsplit)
        use_default = draw(st.booleans())
        default = sur_spec(draw, fams[0], m, n, True) if use_default else None
        persur = []
        for o in range(nout):
            if use_default and draw(st.booleans()):
                persur.append(None)
            else:
                persur.append(sur_spec(draw, draw(st.sampled_from(fams)), m, n, True))
        case['default'] = default
        case['persur'] = persur
        case['default_via'] = draw(st.sampled_from(['ctor', 'option']))
        case['vec'] = draw(st.sampled_from([1, 1, 2, 3]))
        case['how'] = draw(st.sampled_from(['add', 'options']))
        case['scalar_lists'] = draw(st.booleans())
        case['flat_vec'] = draw(st.booleans())
        case['retrain'] = draw(st.integers(0, 3)) == 0
        case['mode'] = draw(st.sampled_from(['fwd', 'rev']))
        rows = []
        for ir in range(case['vec']):
            if ir > 0 and ir == case['vec'] - 1 and draw(st.integers(0, 3)) == 0:
                rows.append({'near': draw(st.integers(0, ir - 1))})
            elif draw(st.integers(0, 2)) == 0:
                rows.append({'t': draw(st.integers(0, m - 1))})
            else:
                rows.append([draw(st.integers(-10, 110)) for _ in range(n)])
        case['rows'] = rows
        return case

    return st.one_of(surr_case(), surr_case(), comp_case())


# ---------------------------------------------------------------------------------------------
# work units
# ---------------------------------------------------------------------------------------------

def units(tier, seed):
    nunits = 4 if tier == 'quick' else 16
    per = 420 if tier == 'quick' else 1900
    return [{'kind': 'random', 'n': per, 'seed': core.shard_seed(seed, ID, i)} for i in range(nunits)]


def run_unit(unit, ctx):
    import warnings
    warnings.simplefilter('ignore')
    core.run_hypothesis(ctx, strategy(unit.get('tier')), check, unit['n'], unit['seed'], shrink=unit.get('tier') == 'thorough')
