"""C19  Loading a recorded case restores the recorded state.

Domain : the recorded runs of C17 (vfw/c17_models.py; models include inputs connected or promoted with src_indices and groups of
         unconnected inputs promoted to one name whose source is described by set_input_defaults in units of its own); recorded
         cases picked at drawn positions (driver, problem, system, solver cases); a fresh Problem of the same spec, optionally brought to a different state first (other independent values +
         run_model) and optionally final_setup() before the load, calls load_case(case).
Oracle : the case itself: for every recorded output get_val(abs) == recorded value (bitwise), for every recorded input
         get_val(abs_in, from_src=False) == recorded value in the input's units (its own entries when it reads its source through
         src_indices), variables that are neither in the case nor the
         source of a recorded input keep their values; for cases recorded when the whole model had just been solved a following
         run_model() reproduces every recorded output (solver tolerance).
"""
import os

import numpy as np

from vfw import core
from vfw.core import Result
from vfw import c17_models as M

ID = 'C19'
LEVEL = 'exploration'
TECHNIQUE = ('Hypothesis-generated recorded runs (shared with C17); recorded case as oracle for the state of a fresh/perturbed problem '
             'after load_case (bitwise); unchanged-rest frame condition; re-run of the model as metamorphic check')
RULE = ("case = C17 case (model spec x driver x recorder placement/options x run sequence) + 3 drawn positions in the list of recorded "
        "cases (one recorded after a complete solve, one in the middle of a run, one anywhere) + load mode (fresh problem after setup() | after final_setup() | after final_setup, other independent values and "
        "run_model). Every picked case is loaded into its own new Problem. Non-trivial = the loaded case holds an input connected "
        "with a unit conversion or a variable of the coupled pair, and the target problem was perturbed or the case is not the last "
        "one; also when the loaded case holds an input with src_indices or an _auto_ivc output feeding inputs declared in other units / "
        "through src_indices. Distinct = distinct canonical JSON.")
ASSUMPTIONS = [
    "get_val(abs_name) is the model-units value of an output, get_val(abs_in, from_src=False) the input's own value (docs)",
    "load_case 'pulls all input and output variables from a case into the model ... the rest of the model variables are left "
    "unchanged' (docs): unchanged is asserted for outputs that are not the source of a recorded input (set_val on an input sets its "
    "source by design) and, after final_setup, for inputs not in the case",
    "before final_setup an input has no storage of its own apart from its source: recorded inputs are then compared only for cases "
    "recorded in a consistent state (whole model just solved), with tolerance 1e-9*(1+|v|) (an input inside the coupled pair lags "
    "its source by the solver tolerance)",
    "an input fed by an _auto_ivc output is the same variable as that output for load_case: when a case holds different values for "
    "the two (recorded between set_val and the next run, or stale in an optimizer run) the input is not compared; 'the same value' "
    "means input == source[src_indices] converted from the source's units (set_input_defaults) to the input's units, exactly when no "
    "conversion is involved, within 1e-12*(1+|v|) otherwise",
    "an input whose _auto_ivc source carries other units may be restored from its own recorded value or from the recorded source "
    "(the docs do not say which): it is compared with tolerance 1e-12*(1+|v|) (one unit conversion) instead of bitwise",
    "set_input_defaults(name, val=, units=) and group.promotes(..., src_indices=) are documented ways to build a model; the docs of "
    "load_case make no exception for them ('pulls all input and output variables from a case into the model', and the docs' own "
    "example asserts model._outputs[name] == case value for every recorded output), so the recorded _auto_ivc value must come back too",
    "re-run clause: only cases recorded right after a complete model solve (driver / root-system / problem cases), that contain "
    "every independent variable whose value differs from the fresh default; tolerance 1e-9*(1+|v|) (solver tolerances are 1e-12); "
    "cases of a ScipyOptimizeDriver run are excluded from this clause (relevance pruning leaves irrelevant components stale by design), "
    "and so are models whose coupled pair holds magnitudes above 1e4 (solver converged only relative to its first residual)",
    "the recorder file is written with PRAGMA synchronous=OFF (durability is C18's subject)",
]
BOUND = {'quick': '4 units x 110 runs x up to 3 loaded cases', 'thorough': '16 units x 900 runs x 3'}
MIN_CLASS_FRACTION = {'judged': 0.9, 'kind:driver': 0.08, 'kind:problem': 0.1, 'kind:system': 0.15, 'kind:solver': 0.08, 'mode:perturbed': 0.2,
                      'mode:setup-only': 0.2, 'rerun-checked': 0.12, 'has-unit-converted-input': 0.2,
                      'gen:defaults-units-differ-from-inputs': 0.15, 'gen:src-indices:connect': 0.2, 'gen:src-indices:promoted-auto': 0.1,
                      'gen:src-indices:promoted-ivc': 0.03, 'loaded:autoivc-output-in-other-units-than-its-inputs': 0.1,
                      'loaded:autoivc-output-read-through-src-indices': 0.08, 'loaded:input-with-src-indices': 0.25}
UNIT_TIMEOUT = {'quick': 1500, 'thorough': 4 * 3600}
FNAME = './c19_cases.sql'


def known_relative_names(spec, absn):
    """F-C19-1: the variable lives under a recorded sub-system (system or solver's group) in which its promoted name differs
    from its promoted name in the model: the recorder stores the sub-system's name and load_case cannot resolve it."""
    names = M.var_names(spec)
    if absn not in names:
        return False
    for r in spec['recorders']:
        P = r.get('path', '')
        if r['on'] in ('system', 'solver') and P and M.in_scope(absn, P) and M.prom_in_system(spec, absn, P) != names[absn]['prom']:
            return True
    return False


def known_presetup_units(spec, absn, conn):
    """F-C19-2: set_val on a connected input before final_setup leaves the source-units value in the input (no unit conversion in
    conn_graph.set_tree_val)."""
    names = M.var_names(spec)
    s = conn.get(absn)
    return s is not None and s in names and names[s]['units'] != names[absn]['units']


def shared_sources(spec, conn):
    """_auto_ivc output -> (spec['shared'] entry, [(abs input, input dict)]): inputs promoted to one name whose source is described by
    set_input_defaults"""
    out = {}
    for sh in M.shared_groups(spec):
        mem = M.shared_members(spec, sh)
        if mem and conn.get(mem[0][0], '').startswith('_auto_ivc.'):
            out[conn[mem[0][0]]] = (sh, mem)
    return out


def known_autoivc_units(sh, v):
    """F-C19-3: the case holds an _auto_ivc output whose units (set_input_defaults) differ from the units declared on input v that
    it feeds: load_case hands the recorded SOURCE value to set_val(<abs input>), which reads it in the input's units."""
    return M.ufactor(sh['units'], v['units']) != 1.0


def known_autoivc_view(sh, v):
    """F-C19-4: the case holds an _auto_ivc output that input v reads through src_indices (promotes(..., src_indices=...)):
    load_case hands the whole recorded SOURCE value to set_val(<abs input>), which expects the input's own (selected) entries."""
    return M.is_view(v.get('si'), sh['size'])


def check(case):
    import openmdao.api as om
    res = Result()
    spec = {k: v for k, v in case.items() if k not in ('picks', 'mode', 'pert')}
    res.classes = ['drv:' + spec['driver']['t'], 'mode:' + case['mode']]
    if os.path.exists(FNAME):
        os.remove(FNAME)
    try:
        out = _check(case, spec, res, om)
        out.classes = list(dict.fromkeys(out.classes))
        return out
    finally:
        for fn in (FNAME, FNAME + '-journal'):
            if os.path.exists(fn):
                os.remove(fn)


def _independents(spec, conn):
    """[(name usable in set_val/get_val, abs output name)] of all independent variables"""
    out = []
    if spec['ivc']:
        for d in spec['ivc']['outs']:
            out.append(('ivc.' + d['n'], 'ivc.' + d['n'], d['size']))
    seen = set()
    names = M.var_names(spec)
    for i, v in M.all_inputs(spec):
        if conn.get(i, '').startswith('_auto_ivc.') and conn[i] not in seen:
            seen.add(conn[i])
            sh = M.shared_of_input(spec, v)
            if sh is not None:
                # several inputs promoted to one name: the independent variable is that name (sh['size'] entries in sh['units'])
                out.append((names[i]['prom'], conn[i], sh['size']))
            else:
                out.append((i, conn[i], v['size']))
    return out


def _check(case, spec, res, om):
    try:
        p, log, rinfo = M.run_recorded(spec, FNAME)
        p.cleanup()
        cr = om.CaseReader(FNAME)
    except Exception as e:
        sig = core.repo_frame_signature(e, 'run')
        if sig is None:
            raise
        res.discard = 'recording failed (C17 territory): ' + sig
        return res
    if not log:
        res.discard = 'nothing recorded'
        return res
    conn = dict(p.model._conn_global_abs_in2out)
    names = M.var_names(spec)
    res.classes.append('judged')
    res.classes += M.feature_classes(spec)
    indict = dict(M.all_inputs(spec))
    ssrc = shared_sources(spec, conn)
    mode = case['mode']
    indep = _independents(spec, conn)
    defaults = {}
    p0, _ = M.build(spec)
    p0.setup()
    p0.final_setup()
    for nm, absn, size in indep:
        defaults[absn] = np.array(p0.get_val(absn), dtype=float).copy()

    def is_full(e):
        if e['source'] == 'problem':
            prev = [o['op'] for o in spec['ops'][:e['op']] if o['op'] != 'record']
            return bool(prev) and prev[-1].startswith('run')
        return e['source'] in ('driver', 'root')

    # first pick among the cases recorded after a complete solve, second among the others (component / solver / sub-group
    # cases taken in the middle of a run), third anywhere
    pools = [[i for i, e in enumerate(log) if is_full(e)], [i for i, e in enumerate(log) if not is_full(e)], list(range(len(log)))]
    done = set()
    for pick, pool in zip(case['picks'], pools):
        if not pool:
            continue
        idx = pool[pick % len(pool)]
        if idx in done:
            continue
        done.add(idx)
        e = log[idx]
        kind = 'problem' if e['source'] == 'problem' else 'driver' if e['source'] == 'driver' else \
            'solver' if e['source'].endswith('.nonlinear_solver') else 'system'
        res.classes.append('kind:' + kind)
        try:
            c = cr.get_case(e['name'])
        except Exception as ex:
            res.discard = 'case not readable (C17 territory)'
            continue
        rec_out = {a: np.asarray(c.outputs[a]) for a in (c.outputs.absolute_names() if c.outputs is not None else [])}
        rec_in = {a: np.asarray(c.inputs[a]) for a in (c.inputs.absolute_names() if c.inputs is not None else [])}
        if not rec_out and not rec_in:
            res.classes.append('empty-case')
            continue

        # ---- target problem
        p2, _ = M.build(spec)
        p2.setup()
        if mode != 'setup-only':
            p2.final_setup()
        if mode == 'perturbed':
            for k, (nm, absn, size) in enumerate(indep):
                p2.set_val(nm, np.array([(case['pert'][(k + j) % len(case['pert'])]) for j in range(size)], dtype=float))
            p2.run_model()
        has_vec = mode != 'setup-only'
        before = {}
        if has_vec:
            for a, m in names.items():
                before[a] = np.array(p2.get_val(a, from_src=False) if m['io'] == 'input' else p2.get_val(a)).copy()

        # consistent state when recorded?
        full = is_full(e)
        in_opt = False
        if spec['driver']['t'] == 'slsqp':
            last_run = [o['op'] for o in spec['ops'][:e['op'] + 1] if o['op'].startswith('run')]
            in_opt = bool(last_run) and last_run[-1] == 'run_driver'

        # recorded _auto_ivc outputs that feed inputs declared in other units (k3) / through src_indices (k4)
        k3 = {o for o, (sh, mem) in ssrc.items() if o in rec_out and any(known_autoivc_units(sh, v) for _, v in mem)}
        k4 = {o for o, (sh, mem) in ssrc.items() if o in rec_out and any(known_autoivc_view(sh, v) for _, v in mem)}
        if k3:
            res.classes.append('loaded:autoivc-output-in-other-units-than-its-inputs')
        if k4:
            res.classes.append('loaded:autoivc-output-read-through-src-indices')
        if any(indict[a].get('si') for a in rec_in if a in indict):
            res.classes.append('loaded:input-with-src-indices')
        nontriv_new = bool(k3 or k4) or any(indict[a].get('si') for a in rec_in if a in indict)

        try:
            p2.load_case(c)
        except Exception as ex:
            sig = core.repo_frame_signature(ex, f"load_case:{kind}")
            if sig is None:
                raise
            res.fail(('F-C19-4|' if k4 else '') + sig, f"{e['name']}: {type(ex).__name__}: {ex}")
            continue

        nontriv = False
        bad_src = set()
        # ---- recorded outputs
        for a, want in rec_out.items():
            got = np.asarray(p2.get_val(a))
            if got.shape != want.shape or not np.array_equal(got, want):
                pre = 'F-C19-1|' if known_relative_names(spec, a) else 'F-C19-4|' if a in k4 else 'F-C19-3|' if a in k3 else ''
                if a in ssrc:
                    bad_src.add(a)
                res.fail(f"{pre}output-not-restored:{kind}", f"mode {mode}, case {e['name']} ({e['source']}): get_val({a!r}) = {got.tolist()} "
                         f"recorded {want.tolist()} (case.outputs keys {list(c.outputs.keys())[:8]})")
            if a.startswith('cyc.'):
                nontriv = True
        # ---- recorded inputs
        for a, want in rec_in.items():
            conv = known_presetup_units(spec, a, conn)
            if conv:
                nontriv = True
                res.classes.append('has-unit-converted-input')
            if not has_vec and not (full and not in_opt):
                continue
            src = conn.get(a, '')
            f = 1.0
            if src.startswith('_auto_ivc.') and src in rec_out:
                # what the recorded source says about this input: its entries src_indices, converted from the source's units
                # (set_input_defaults) to the input's units
                sv = np.ravel(rec_out[src])
                vin = indict[a]
                if src in ssrc:
                    f = M.ufactor(ssrc[src][0]['units'], vin['units'])
                    sv = sv[list(vin['si'])] if vin.get('si') else sv
                if sv.shape != np.ravel(want).shape:
                    raise RuntimeError(f"harness: source view of {a} has shape {sv.shape}, recorded input {np.shape(want)}")
                if f == 1.0:
                    same = np.array_equal(sv, np.ravel(want))
                else:
                    same = bool(np.all(np.abs(sv * f - np.ravel(want)) <= 1e-12 * (1 + np.abs(np.ravel(want)))))
                if not same:
                    # the case was recorded in an inconsistent state (set_val / stale irrelevant component): an input and the
                    # auto_ivc output that feeds it are ONE variable for load_case, both recorded values cannot be restored
                    res.classes.append('inconsistent-autoivc-pair')
                    continue
            got = np.asarray(p2.get_val(a, from_src=False))
            if has_vec and f != 1.0:
                # the input may be restored from its own recorded value or from the recorded source: one unit conversion apart
                ok = got.shape == want.shape and bool(np.all(np.abs(got - want) <= 1e-12 * (1 + np.abs(want))))
            elif has_vec:
                ok = got.shape == want.shape and np.array_equal(got, want)
            else:
                # no storage of its own yet: the input shows its source, which the recording solver left within its tolerance
                ok = got.shape == want.shape and bool(np.all(np.abs(got - want) <= 1e-9 * (1 + np.abs(want))))
            if not ok:
                pre = 'F-C19-2|' if (not has_vec and conv) else ''
                if src in k3 or src in k4:
                    sh = ssrc[src][0]
                    # after final_setup the input's own storage was overwritten with the raw source value; before, the input
                    # shows its source, which is wrong when the last member written reads it in other units / other entries
                    if (has_vec and known_autoivc_view(sh, indict[a])) or (not has_vec and src in bad_src and src in k4):
                        pre = 'F-C19-4|'
                    elif (has_vec and known_autoivc_units(sh, indict[a])) or (not has_vec and src in bad_src):
                        pre = 'F-C19-3|'
                res.fail(f"{pre}input-not-restored:{kind}", f"mode {mode}, case {e['name']} ({e['source']}): get_val({a!r}, from_src=False) = "
                         f"{got.tolist()} recorded {want.tolist()}")
        # ---- the rest is unchanged
        if has_vec:
            touched = set(rec_out) | set(rec_in) | {conn[i] for i in rec_in if i in conn}
            # an auto_ivc output is the value of the inputs it feeds: loading it sets them (by design)
            touched |= {i for i, o in conn.items() if o.startswith('_auto_ivc.') and o in rec_out}
            for a, m in names.items():
                if a in touched:
                    continue
                now = np.asarray(p2.get_val(a, from_src=False) if m['io'] == 'input' else p2.get_val(a))
                if not np.array_equal(now, before[a]):
                    res.fail(f"unrelated-variable-changed:{m['io']}", f"mode {mode}, case {e['name']}: {a} was {before[a].tolist()} now "
                             f"{now.tolist()}; not in the case (outputs {sorted(rec_out)}, inputs {sorted(rec_in)})")
        # ---- re-run reproduces the recorded outputs
        if full and not in_opt and rec_out:
            ok = True
            for nm, absn, size in indep:
                snap = rinfo['out_off'].get(e['outputs'], absn)
                if absn not in rec_out and (mode == 'perturbed' or not np.array_equal(np.ravel(snap), np.ravel(defaults[absn]))):
                    ok = False
            bad_names = any(known_relative_names(spec, a) for a in rec_out)
            if ok and spec['cycle'] and max(float(np.max(np.abs(rinfo['out_off'].get(e['outputs'], a)))) for a in ('cyc.d1.cy1', 'cyc.d2.cy2')) > 1e4:
                # the coupled pair's solver stops on a residual RELATIVE to its first one: with huge magnitudes the recorded state
                # is converged only relatively and no absolute tolerance for the re-run follows from the case
                res.classes.append('rerun-skipped-huge-values')
                ok = False
            if ok:
                try:
                    p2.run_model()
                except Exception as ex:
                    sig = core.repo_frame_signature(ex, 'rerun')
                    if sig is None:
                        raise
                    res.fail(sig, f"{e['name']}: {type(ex).__name__}: {ex}")
                    continue
                res.classes.append('rerun-checked')
                for a, want in rec_out.items():
                    got = np.asarray(p2.get_val(a))
                    if got.shape != want.shape or np.any(np.abs(got - want) > 1e-9 * (1 + np.abs(want))):
                        pre = 'F-C19-1|' if bad_names else 'F-C19-4|' if bad_src & k4 else 'F-C19-3|' if bad_src & k3 else ''
                        res.fail(f"{pre}rerun-differs:{kind}", f"mode {mode}, case {e['name']}: after load_case + run_model {a} = {got.tolist()} "
                                 f"recorded {want.tolist()}")
                        break
        if (nontriv or nontriv_new) and (mode == 'perturbed' or idx != len(log) - 1):
            res.nontrivial = True
        if kind in ('system', 'solver') and not full:
            res.classes.append('mid-iteration-case')
    return res


def strategy(tier):
    from hypothesis import strategies as st

    @st.composite
    def cases(draw):
        need = draw(st.sampled_from([('driver', ''), ('problem', ''), ('system', ''), ('solver', ''), None]))
        spec = draw(M.full_strategy(max_recorders=3, need=[need] if need else None))
        out = dict(spec)
        # C17 stresses the filters; here most recorders keep everything so that the loaded cases are rich
        recs = []
        for r in spec['recorders']:
            r = dict(r, opts=dict(r['opts']))
            if draw(st.integers(0, 3)) > 0:
                r['opts'].pop('excludes', None)
                r['opts']['includes'] = ['*']
                for k in ('record_inputs', 'record_outputs'):
                    r['opts'][k] = True
            recs.append(r)
        out['recorders'] = recs
        out['picks'] = [draw(st.integers(0, 200)) for _ in range(3)]
        out['mode'] = ['setup-only', 'final-setup', 'perturbed', 'perturbed'][draw(st.integers(0, 3))]
        out['pert'] = [draw(st.sampled_from([0.375, -1.625, 2.25, 0.875, -0.5])) for _ in range(4)]
        return out
    return cases()


def units(tier, seed):
    n = 4 if tier == 'quick' else 16
    per = 110 if tier == 'quick' else 900
    return [{'kind': 'random', 'n': per, 'seed': core.shard_seed(seed, ID, i)} for i in range(n)]


def run_unit(unit, ctx):
    import gc
    import openmdao.api  # noqa: F401
    gc.collect()
    gc.freeze()
    core.run_hypothesis(ctx, strategy(unit.get('tier')), check, unit['n'], unit['seed'], shrink=unit.get('tier') == 'thorough')
