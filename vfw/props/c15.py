"""C15  Table interpolation is exact on nodes and reproduces its polynomial degree.

Domain : strictly increasing grids of dimension 1-3 with drawn spacing, scale and sign/offset (all negative,
         ending at 0, straddling 0, starting at 0, positive) x every table method (general, scipy_*, fixed
         1D-/2D-/3D- variants) x sequences of query batches (grid nodes, cell interiors, boundary faces,
         clearly outside) x extrapolate flag, through InterpND.interpolate and MetaModelStructuredComp
         (and, on full tensor grids, InterpNDSemi).
Oracle : own NumPy reference: table value at nodes; the generating tensor polynomial at in-bounds points when
         the table is sampled from a function the method is exact for; own multilinear / natural-cubic-spline
         interpolant for rough tables; fixed-dimension variant == general variant; OutOfBoundsError (with
         truthful attributes) iff extrapolate=False and some coordinate is outside [grid[0], grid[-1]].
"""
import numpy as np

from vfw import core
from vfw.core import Result

ID = 'C15'
LEVEL = 'exploration'
TECHNIQUE = ('Hypothesis-generated grids/tables/query sequences, independent NumPy reference '
             '(tensor polynomials, multilinear and natural-cubic-spline interpolants), differential check of '
             'fixed-dimension variants')
RULE = ("case = (method, 1-3 strictly increasing axis grids with drawn spacing pattern uniform/mild/wild, scale "
        "1e-2..1e2 and sign placement neg/end0/straddle/start0/pos, extrapolate flag, access path "
        "InterpND | MetaModelStructuredComp | InterpNDSemi, a tensor polynomial of the degree the method is exact "
        "for, a rough cosine table, and 1-3 successive query batches of 1-4 points whose coordinates are grid "
        "nodes, cell-interior points, the two boundary values, or points >=1e-6*span outside). Every case "
        "evaluates an 'exact' and a 'rough' table on the general and (where one exists) the fixed-dimension "
        "variant, re-using each interpolator object across the batches. Non-trivial = the case was judged on at "
        "least one in-bounds point and (some axis has a non-positive coordinate, or dimension >= 2, or a query "
        "coordinate lies on a boundary). Distinct = distinct canonical JSON of the case.")
ASSUMPTIONS = [
    "a point is 'outside' iff some coordinate is < grid[0] or > grid[-1]; queries are placed exactly on nodes / "
    "boundaries, strictly inside cells, or at least 1e-6*span outside, never inside the 1e-14 round-off band of "
    "InterpND._interpolate (cases that violate this are discarded, none are generated)",
    "functions a method must reproduce: per-axis degree 1 for slinear/akima/cubic/scipy_slinear, 2 for lagrange2, "
    "3 for lagrange3/scipy_cubic, 5 for scipy_quintic; a scipy axis with too few points for its order (documented "
    "automatic order reduction) is only required to reproduce degree 1",
    "tolerance = 256*eps*A*F: F bounds the magnitude of the polynomial terms / table values, A is the product over "
    "axes of (widest stencil / smallest spacing in it)^degree for the polynomial methods (times (1 + max|x|/min "
    "spacing) for 2D-/3D-slinear, which work in absolute coordinates) and of 4*(max/min spacing)^q for the spline "
    "methods, i.e. the amplification of table round-off by the formulas; the measured worst error on the unchanged "
    "tree is about 2*eps*A*F (calibration over 1e4 cases); grids with 256*eps*A > 1e-6 are discarded, not judged",
    "'cubic' is additionally compared with an independent natural cubic spline (second derivative 0 at both ends, as "
    "its source states) on rough tables; lagrange/akima/scipy stencil choices on rough tables are not judged except "
    "through the fixed-vs-general comparison and node values",
    "with extrapolate=True nothing is asserted about the values at outside points, only that no exception is "
    "raised (docs: 'Extrapolation is supported') and that in-bounds points of the same batch are still right",
    "MetaModelStructuredComp must turn OutOfBoundsError into AnalysisError (its documented behaviour)",
    "InterpNDSemi/MetaModelSemiStructuredComp are exercised only on full tensor grids (a special case of "
    "semi-structured data), with extrapolate=True bounds left unjudged (no bounds clause is documented there "
    "beyond the per-dimension OutOfBoundsError of the bracket search)",
]
BOUND = {'quick': '16 shards x 260 Hypothesis cases', 'thorough': '32 shards x 6000 Hypothesis cases'}
MIN_CLASS_FRACTION = {'judged_inbounds': 0.5, 'sign:neg': 0.05, 'sign:end0': 0.05, 'sign:straddle': 0.05,
                      'dim3': 0.1, 'boundary_query': 0.2, 'oob_expected': 0.05, 'fixed_variant': 0.15,
                      'via:mmsc': 0.05}

EPS = float(np.finfo(float).eps)
TOL_K = 256.0          # tolerance = TOL_K * eps * A * F  (measured worst error on the unchanged tree: 2*eps*A*F)
MAX_REL_TOL = 1e-6     # grids whose tolerance would exceed 1e-6 of the table magnitude are not judged (discard)
_STATS = None      # set to a dict by calibration scripts: clause/method -> max error/tolerance


def _stat(key, err, tol):
    if _STATS is not None and tol > 0:
        r = float(np.max(err)) / tol if np.size(err) else 0.0
        if r > _STATS.get(key, (0.0, None))[0]:
            _STATS[key] = (r, None)


BASE_METHODS = ['slinear', 'lagrange2', 'lagrange3', 'cubic', 'akima',
                'scipy_slinear', 'scipy_cubic', 'scipy_quintic']
MIN_POINTS = {'slinear': 2, 'lagrange2': 3, 'lagrange3': 4, 'cubic': 4, 'akima': 4,
              'scipy_slinear': 2, 'scipy_cubic': 2, 'scipy_quintic': 2}
DEGREE = {'slinear': 1, 'lagrange2': 2, 'lagrange3': 3, 'cubic': 1, 'akima': 1,
          'scipy_slinear': 1, 'scipy_cubic': 3, 'scipy_quintic': 5}
FIXED = {('slinear', 1): '1D-slinear', ('slinear', 2): '2D-slinear', ('slinear', 3): '3D-slinear',
         ('lagrange2', 1): '1D-lagrange2', ('lagrange2', 2): '2D-lagrange2', ('lagrange2', 3): '3D-lagrange2',
         ('lagrange3', 1): '1D-lagrange3', ('lagrange3', 2): '2D-lagrange3', ('lagrange3', 3): '3D-lagrange3',
         ('akima', 1): '1D-akima'}
SEMI_METHODS = ['slinear', 'lagrange2', 'lagrange3', 'akima']


# ---------------------------------------------------------------------------------------------
# reference model
# ---------------------------------------------------------------------------------------------

def axis_degrees(method, grids):
    d = DEGREE[method]
    out = []
    for g in grids:
        if method.startswith('scipy') and len(g) <= d:
            out.append(1)          # documented automatic order reduction: only degree 1 is demanded
        else:
            out.append(d)
    return out


def normalise(grids):
    """Affine maps u_i = (x_i - mid_i)/half_i taking each axis onto [-1, 1]."""
    mids = [0.5 * (g[0] + g[-1]) for g in grids]
    halfs = [0.5 * (g[-1] - g[0]) for g in grids]
    return mids, halfs


def poly_eval(terms, mids, halfs, pts):
    """Tensor polynomial sum_k c_k prod_i u_i^{a_ki} at pts (m, dim)."""
    pts = np.asarray(pts, dtype=float)
    u = (pts - np.asarray(mids)) / np.asarray(halfs)
    out = np.zeros(pts.shape[0])
    for powers, c in terms:
        t = np.full(pts.shape[0], float(c))
        for i, a in enumerate(powers):
            if a:
                t = t * u[:, i] ** int(a)
        out += t
    return out


def mesh_points(grids):
    mesh = np.meshgrid(*[np.asarray(g, dtype=float) for g in grids], indexing='ij')
    return np.stack([m.ravel() for m in mesh], axis=1)


def exact_table(case):
    grids = case['grids']
    mids, halfs = normalise(grids)
    vals = poly_eval(case['poly'], mids, halfs, mesh_points(grids))
    return vals.reshape([len(g) for g in grids])


def rough_table(case):
    """Second table of every case.  kind 'cos': amp*cos(w.(index+1)+phi), a rough table no method is exact for.
    kind 'ramp': c0 + sum_i a_i*index_i with small integers (exactly equal slopes along every uniform axis: the
    division-by-zero guard of akima).  kind 'const': c0 everywhere."""
    r = case['rough']
    shape = [len(g) for g in case['grids']]
    idx = np.indices(shape).astype(float)
    kind = r.get('kind', 'cos')
    if kind == 'const':
        return np.full(shape, float(r['c0']))
    if kind == 'ramp':
        out = np.full(shape, float(r['c0']))
        for i, a in enumerate(r['a']):
            out = out + float(a) * idx[i]
        return out
    arg = float(r['phi']) * np.ones(shape)
    for i, w in enumerate(r['w']):
        arg = arg + float(w) * (idx[i] + 1.0)
    return float(r['amp']) * np.cos(arg)


def rough_magnitude(case):
    r = case['rough']
    kind = r.get('kind', 'cos')
    if kind == 'const':
        return abs(float(r['c0']))
    if kind == 'ramp':
        return abs(float(r['c0'])) + sum(abs(float(a)) * (len(g) - 1) for a, g in zip(r['a'], case['grids']))
    return abs(float(r['amp']))


def _uniform(g):
    h = np.diff(np.asarray(g, dtype=float))
    return bool(np.all(h == h[0]))


def rough_is_linear(case):
    """The rough table is a (multi)linear function of x: constant, or a ramp whose sloped axes are exactly uniform.
    Every table method reproduces such a table (per-axis degree <= 1)."""
    r = case['rough']
    kind = r.get('kind', 'cos')
    if kind == 'const':
        return True
    if kind == 'ramp':
        return all(float(a) == 0.0 or _uniform(g) for a, g in zip(r['a'], case['grids']))
    return False


def rough_linear_eval(case, pts):
    r = case['rough']
    pts = np.asarray(pts, dtype=float)
    out = np.full(pts.shape[0], float(r['c0']))
    if r.get('kind') == 'ramp':
        for i, (a, g) in enumerate(zip(r['a'], case['grids'])):
            if float(a) != 0.0:
                out = out + float(a) * (pts[:, i] - g[0]) / (g[1] - g[0])
    return out


def table_has_equal_slopes(case, tname):
    """Input predicate of F21: the table is (multi)linear, so consecutive slopes along an axis are equal (exactly for
    constant / ramp tables, up to round-off luck for the drawn multilinear 'exact' table of akima) and both Akima
    weights can vanish."""
    if tname == 'exact' or rough_is_linear(case):
        return True
    table = rough_table(case)
    for i, g in enumerate(case['grids']):
        t = np.moveaxis(table, i, -1)
        m = np.diff(t, axis=-1) / np.diff(np.asarray(g, dtype=float))
        if m.shape[-1] >= 2 and np.any(m[..., 1:] == m[..., :-1]):
            return True          # e.g. a ramp that is constant along one axis
    return False


def ref_multilinear(grids, table, pts):
    """Piecewise multilinear interpolant (in-bounds points only)."""
    out = np.empty(len(pts))
    for j, p in enumerate(pts):
        t = table
        for i, g in enumerate(grids):
            g = np.asarray(g, dtype=float)
            k = int(np.searchsorted(g, p[i], side='right')) - 1
            k = min(max(k, 0), len(g) - 2)
            w = (p[i] - g[k]) / (g[k + 1] - g[k])
            t = t[k] * (1.0 - w) + t[k + 1] * w      # always contracts the leading axis
        out[j] = t
    return out


def natural_spline_second_derivs(g, y):
    """Second derivatives of the natural cubic spline through (g, y); y may have trailing axes."""
    n = len(g)
    h = np.diff(g)
    A = np.zeros((n, n))
    rhs = np.zeros((n,) + y.shape[1:])
    A[0, 0] = 1.0
    A[-1, -1] = 1.0
    for i in range(1, n - 1):
        A[i, i - 1] = h[i - 1] / 6.0
        A[i, i] = (h[i - 1] + h[i]) / 3.0
        A[i, i + 1] = h[i] / 6.0
        rhs[i] = (y[i + 1] - y[i]) / h[i] - (y[i] - y[i - 1]) / h[i - 1]
    return np.linalg.solve(A, rhs.reshape(n, -1)).reshape(rhs.shape)


def ref_natural_cubic(grids, table, pts):
    """Tensor-product natural cubic spline interpolant (in-bounds points only)."""
    out = np.empty(len(pts))
    for j, p in enumerate(pts):
        t = np.asarray(table, dtype=float)
        for i, g in enumerate(grids):
            g = np.asarray(g, dtype=float)
            M = natural_spline_second_derivs(g, t)
            k = int(np.searchsorted(g, p[i], side='right')) - 1
            k = min(max(k, 0), len(g) - 2)
            h = g[k + 1] - g[k]
            a = (g[k + 1] - p[i]) / h
            b = (p[i] - g[k]) / h
            t = a * t[k] + b * t[k + 1] + ((a ** 3 - a) * M[k] + (b ** 3 - b) * M[k + 1]) * h * h / 6.0
        out[j] = t
    return out


SPLINE_AMP_POWER = {'cubic': 2, 'akima': 2, 'scipy_slinear': 1, 'scipy_cubic': 3, 'scipy_quintic': 5}


def amplification(method, grids, variant=None):
    """Round-off amplification A of the table formulas on these grids (see ASSUMPTIONS).

    Polynomial methods (slinear, lagrange2/3 and their fixed variants): per axis (widest (degree+1)-node stencil /
    smallest spacing inside it)^degree bounds the size of the Lagrange / power-basis terms relative to the table
    values.  2D-/3D-slinear evaluate a0 + a1*x + a2*y + a4*x*y... in absolute coordinates, which adds the
    cancellation factor (1 + max|x|/min spacing) per axis.  Spline methods (cubic, akima, scipy_*): per axis
    4*(largest/smallest spacing)^q, q = 2 for the cubic pieces built from second derivatives / slopes, q = spline
    degree for the scipy B-spline collocation.
    """
    A = 1.0
    for g in grids:
        g = np.asarray(g, dtype=float)
        h = np.diff(g)
        n = len(g)
        if method in SPLINE_AMP_POWER:
            A *= 4.0 * (h.max() / h.min()) ** SPLINE_AMP_POWER[method]
            continue
        deg = DEGREE[method]
        w = min(deg + 1, n)
        worst = 1.0
        for s in range(0, n - w + 1):
            width = g[s + w - 1] - g[s]
            hmin = h[s:s + w - 1].min()
            worst = max(worst, width / hmin)
        A *= worst ** deg
        if variant in ('2D-slinear', '3D-slinear'):
            A *= 1.0 + max(abs(g[0]), abs(g[-1])) / h.min()
    return A


# ---------------------------------------------------------------------------------------------
# known-finding predicates (functions of the input only)
# ---------------------------------------------------------------------------------------------

def known_f8(grids, batch):
    """F8: extrapolate=False, some axis has grid[-1] < 0 (so eps = 1e-14*grid[-1] is negative), a query coordinate
    on that axis equals grid[0] or grid[-1], and no coordinate of the batch on that axis is really outside
    (the bounds test then fires with nothing to report: KeyError instead of a value)."""
    for i, g in enumerate(grids):
        if g[-1] < 0:
            col = [p[i] for p in batch]
            if all(g[0] <= x <= g[-1] for x in col) and any(x == g[0] or x == g[-1] for x in col):
                # the first axis in loop order decides: an earlier axis with a real violation raises properly
                return True
            if any(x < g[0] or x > g[-1] for x in col):
                return False
        else:
            col = [p[i] for p in batch]
            if any(x < g[0] or x > g[-1] for x in col):
                return False
    return False


def known_multi_then_single(method_name, sizes_so_far, size_now):
    """F16: fixed-dimension table, an earlier batch of the same object had >= 2 points (the vectorised path stores
    index *arrays* in last_index and replaces the coefficient dict by a set), this batch has exactly 1 point (the
    scalar path does max(array, 0) / indexes the set)."""
    return method_name[:2] in ('1D', '2D', '3D') and size_now == 1 and any(s > 1 for s in sizes_so_far)


def known_akima4_point(grids, point):
    """F18: akima on a 1-D grid of exactly 4 points (the documented minimum), coordinate in the middle cell
    (g[1] < x <= g[2], bracket index 1 == ngrid-3): the `if idx == 0 / elif idx == 1 / elif idx == ngrid-3` chains
    take the idx == 1 branch only, so the upper end slope m5 is never extrapolated.  Scalar 1D-akima then raises
    UnboundLocalError, general akima silently uses m5 = 0, vectorised 1D-akima is right (so they disagree)."""
    g = grids[0]
    return len(grids) == 1 and len(g) == 4 and g[1] < point[0] <= g[2]


def known_akima4(method_name, grids, batch):
    return method_name == '1D-akima' and len(batch) == 1 and known_akima4_point(grids, batch[0])


def known_akima_delta_nd(method_name, dim, opts):
    """F19: general akima with the smoothing option delta_x > 0 on a table of 3 or more dimensions."""
    return method_name == 'akima' and dim >= 3 and float(opts.get('delta_x', 0.0)) > 0.0


def known_1d_akima_options(method_name, opts):
    """F17: 1D-akima is given interpolator options (delta_x): its __init__ does not forward them."""
    return method_name == '1D-akima' and float(opts.get('delta_x', 0.0)) > 0.0


def known_semi_larger_batch(via, sizes_so_far, size_now):
    """F22: InterpNDSemi allocates extrapolated_points for the size of its FIRST batch only; a later batch with
    more points indexes past its end."""
    return via == 'semi' and bool(sizes_so_far) and size_now > sizes_so_far[0]


def classify_exception(e, role, r, case, tname, grids, batch, sizes_before, extrap, via, dim, opts):
    """Signature of an exception raised for a valid query: a known root cause only when BOTH the input predicate
    and the symptom match, otherwise (exception type, innermost openmdao frame)."""
    msg = str(e)
    if (not extrap and via != 'semi' and isinstance(e, KeyError) and 'pop from an empty set' in msg and
            known_f8(grids, batch)):
        return 'F8-negative-upper-bound-boundary-query:KeyError', False
    if via == 'interp' and known_multi_then_single(r.name, sizes_before, len(batch)):
        if isinstance(e, ValueError) and 'truth value of an array' in msg:
            return 'F16-fixed-table-multi-then-single-point:ValueError', False
        if isinstance(e, TypeError) and "'set' object" in msg:
            return 'F16-fixed-table-multi-then-single-point:TypeError', False
    if isinstance(e, UnboundLocalError) and "'m5'" in msg and known_akima4(r.name, grids, batch):
        return 'F18-akima-4-point-grid-middle-cell:UnboundLocalError', False
    if isinstance(e, TypeError) and 'item assignment' in msg and known_akima_delta_nd(r.name, dim, opts) \
            and via not in ('semi', 'semicomp'):
        return 'F19-akima-delta_x-on-3D-table:TypeError', False
    if isinstance(e, IndexError) and known_semi_larger_batch(via, sizes_before, len(batch)):
        return 'F22-semi-batch-larger-than-first:IndexError', False
    if (via in ('semi', 'semicomp') and r.name == 'akima' and isinstance(e, UnboundLocalError) and
            ("'bpos'" in msg or "'dbp1'" in msg) and table_has_equal_slopes(case, tname)):
        return 'F21-semi-akima-equal-slopes:UnboundLocalError', False
    sig = core.repo_frame_signature(e, prefix=f"call-{role}") or f"call-{role}:{type(e).__name__}"
    return sig, True


# ---------------------------------------------------------------------------------------------
# oracle
# ---------------------------------------------------------------------------------------------

def _classify_points(grids, batch):
    """-> (inb mask per point, any_out, on_boundary, in_band)"""
    inb = []
    boundary = False
    band = False
    for p in batch:
        ok = True
        for i, g in enumerate(grids):
            x = p[i]
            span = g[-1] - g[0]
            ref = max(span, abs(g[0]), abs(g[-1]))
            if x < g[0] or x > g[-1]:
                ok = False
                dist = (g[0] - x) if x < g[0] else (x - g[-1])
                if dist < 1e-9 * ref:
                    band = True
            elif x == g[0] or x == g[-1]:
                boundary = True
        inb.append(ok)
    return inb, (not all(inb)), boundary, band


def _node_mask(grids, batch):
    """For each point: tuple of node indices if every coordinate is exactly a grid node, else None."""
    out = []
    for p in batch:
        idx = []
        for i, g in enumerate(grids):
            k = int(np.searchsorted(g, p[i]))
            if k < len(g) and g[k] == p[i]:
                idx.append(k)
            else:
                idx = None
                break
        out.append(tuple(idx) if idx is not None else None)
    return out


def _as_query(batch, dim):
    x = np.array(batch, dtype=float)
    if dim == 1:
        return x[:, 0].copy()      # documented form: array of separate points on a 1-D table
    return x


class _Runner(object):
    """One access path to one (method, table): call() returns ('val', array) | ('oob', exc) | ('exc', exc)."""

    def __init__(self, case, method_name, table, opts):
        self.case = case
        self.name = method_name
        self.table = table
        self.opts = opts
        self.obj = None
        self.sizes = []

    def build(self):
        raise NotImplementedError

    def call(self, batch):
        raise NotImplementedError


class _InterpRunner(_Runner):
    def build(self):
        from openmdao.components.interp_util.interp import InterpND
        grids = [np.array(g, dtype=float) for g in self.case['grids']]
        pts = grids[0] if (len(grids) == 1 and self.case.get('points_form') == 'array') else tuple(grids)
        self.obj = InterpND(method=self.name, points=pts, values=self.table.copy(),
                            extrapolate=bool(self.case['extrapolate']), **self.opts)

    def call(self, batch):
        from openmdao.components.interp_util.outofbounds_error import OutOfBoundsError
        x = _as_query(batch, len(self.case['grids']))
        try:
            r = self.obj.interpolate(x)
        except OutOfBoundsError as e:
            return 'oob', e
        except Exception as e:
            return 'exc', e
        return 'val', np.asarray(r, dtype=float).ravel()


class _SemiRunner(_Runner):
    def build(self):
        from openmdao.components.interp_util.interp_semi import InterpNDSemi
        self.obj = InterpNDSemi(mesh_points(self.case['grids']), self.table.ravel().copy(), method=self.name,
                                extrapolate=bool(self.case['extrapolate']), **self.opts)

    def call(self, batch):
        from openmdao.components.interp_util.outofbounds_error import OutOfBoundsError
        x = np.array(batch, dtype=float)
        try:
            r = self.obj.interpolate(x)
        except OutOfBoundsError as e:
            return 'oob', e
        except Exception as e:
            return 'exc', e
        return 'val', np.asarray(r, dtype=float).ravel()


class _CompRunner(_Runner):
    """MetaModelStructuredComp (via 'mmsc') or MetaModelSemiStructuredComp (via 'semicomp') in a Problem."""

    def build(self):
        import openmdao.api as om
        case = self.case
        n = len(case['calls'][0])
        grids = case['grids']
        if case['via'] == 'semicomp':
            comp = om.MetaModelSemiStructuredComp(method=self.name, extrapolate=bool(case['extrapolate']),
                                                  vec_size=n)
            pts = mesh_points(grids)
            for i, g in enumerate(grids):
                comp.add_input(f"x{i}", training_data=pts[:, i].copy(), val=0.5 * (g[0] + g[-1]))
            comp.add_output('f', training_data=self.table.ravel().copy(), val=0.0)
        else:
            comp = om.MetaModelStructuredComp(method=self.name, extrapolate=bool(case['extrapolate']), vec_size=n)
            for i, g in enumerate(grids):
                comp.add_input(f"x{i}", 0.5 * (g[0] + g[-1]), training_data=np.array(g, dtype=float))
            comp.add_output('f', 0.0, training_data=self.table.copy())
        p = om.Problem(reports=False)
        p.model.add_subsystem('mm', comp, promotes=['*'])
        p.setup()
        self.obj = p

    def call(self, batch):
        from openmdao.core.analysis_error import AnalysisError
        p = self.obj
        x = np.array(batch, dtype=float)
        for i in range(x.shape[1]):
            p.set_val(f"x{i}", x[:, i])
        try:
            p.run_model()
        except AnalysisError as e:
            return 'oob', e
        except Exception as e:
            return 'exc', e
        return 'val', np.asarray(p.get_val('f'), dtype=float).ravel().copy()


RUNNERS = {'interp': _InterpRunner, 'mmsc': _CompRunner, 'semi': _SemiRunner, 'semicomp': _CompRunner}


def _discard(res, cls, why):
    res.discard = why
    res.classes = cls
    return res


def check(case):
    res = Result()
    grids = [list(map(float, g)) for g in case['grids']]
    dim = len(grids)
    method = case['method']
    via = case.get('via', 'interp')
    semi = via in ('semi', 'semicomp')
    extrap = bool(case['extrapolate'])
    calls = case['calls']
    cls = [f"dim{dim}", f"m:{method}", f"via:{via}", 'extrapolate' if extrap else 'no_extrapolate',
           f"rough:{case['rough'].get('kind', 'cos')}"]
    for s in sorted(set(case.get('signs', []))):
        cls.append(f"sign:{s}")
    for s in sorted(set(case.get('spacings', []))):
        cls.append(f"spacing:{s}")

    # ---- preconditions of the property (the generator constructs them; a hand-written replay may not) ----
    for g in grids:
        if len(g) < MIN_POINTS[method] or not np.all(np.diff(g) > 0) or not np.all(np.isfinite(g)):
            return _discard(res, cls, 'invalid-grid')
    if semi and (method not in SEMI_METHODS or dim < 2):
        return _discard(res, cls, 'method-or-dimension-not-semi')
    if via in ('mmsc', 'semicomp') and len(set(len(b) for b in calls)) != 1:
        return _discard(res, cls, 'component-needs-constant-vec_size')
    for b in calls:
        if _classify_points(grids, b)[3]:
            return _discard(res, cls, 'query-in-roundoff-band')

    opts = {}
    if method == 'akima' and case.get('delta_x'):
        opts['delta_x'] = float(case['delta_x'])
        cls.append('akima_delta_x')

    tables = {'exact': exact_table(case), 'rough': rough_table(case)}
    mids, halfs = normalise(grids)
    rough_lin = rough_is_linear(case)
    fixed = FIXED.get((method, dim)) if via in ('interp', 'mmsc') else None
    Fmag = {'exact': max(sum(abs(float(c)) for _, c in case['poly']), 1e-300),
            'rough': max(rough_magnitude(case), 1e-300)}
    Amp = {method: amplification(method, grids)}
    if fixed:
        Amp[fixed] = amplification(method, grids, variant=fixed)
    if TOL_K * EPS * max(Amp.values()) > MAX_REL_TOL:
        return _discard(res, cls, 'ill-conditioned-grid')
    if fixed:
        cls.append('fixed_variant')
        cls.append(f"m:{fixed}")
    runner_cls = RUNNERS[via]

    judged_inb = False
    any_boundary = False
    any_oob_expected = False
    nonpos = any(g[0] <= 0 for g in grids)

    for tname, table in tables.items():
        runners = [('general', runner_cls(case, method, table, opts))]
        if fixed:
            runners.append(('fixed', runner_cls(case, fixed, table, opts)))
            if known_1d_akima_options(fixed, opts):
                # keep judging 1D-akima behind F17: it must at least equal akima with default options
                runners.append(('general-default-options', runner_cls(case, method, table, {})))
        alive = []
        for role, r in runners:
            try:
                r.build()
                alive.append((role, r))
            except Exception as e:
                sig = core.repo_frame_signature(e, prefix=f"build-{role}") or f"build-{role}:{type(e).__name__}"
                res.fail(sig, f"{r.name} on {tname} table: {type(e).__name__}: {e}")
        dead = set()
        for b in calls:
            inb, any_out, boundary, _ = _classify_points(grids, b)
            m = np.array(inb)
            any_boundary = any_boundary or boundary
            expect_oob = any_out and not extrap
            any_oob_expected = any_oob_expected or expect_oob
            nodes = _node_mask(grids, b)
            pts = np.array(b, dtype=float)
            got = {}
            for role, r in alive:
                if role in dead:
                    continue
                sizes_before = list(r.sizes)
                kind, val = r.call(b)
                r.sizes.append(len(b))
                ctxt = (f"{r.name} via {via}, {tname} table, extrapolate={extrap}, earlier batch sizes "
                        f"{sizes_before}, batch {b}")
                if kind == 'exc':
                    sig, unexplained = classify_exception(val, role, r, case, tname, grids, b, sizes_before,
                                                          extrap, via, dim, opts)
                    res.fail(sig, f"{ctxt}: {type(val).__name__}: {val}")
                    if unexplained:
                        dead.add(role)        # object state unknown after an unexplained exception
                    continue
                if kind == 'oob':
                    if not expect_oob:
                        res.fail('oob:raised-with-extrapolate-on' if extrap else 'oob:raised-for-in-bounds-point',
                                 f"{ctxt}: {val}")
                    elif via in ('interp', 'semi'):
                        _check_oob_attrs(res, val, grids, b, r.name)
                    continue
                # a value came back
                if expect_oob:
                    sig = 'oob:not-raised-for-outside-point'
                    if semi:
                        sig = 'F20-semi-extrapolate-false-not-forwarded:oob-not-raised'
                    res.fail(sig, f"{ctxt}: returned {val.tolist()}")
                    continue
                if val.shape != (len(b),) or not np.all(np.isfinite(val[m])):
                    res.fail('value:shape-or-nonfinite', f"{ctxt}: {val.tolist()}")
                    continue
                got[role] = val
                if not m.any() or role == 'general-default-options':
                    continue
                judged_inb = True
                t = TOL_K * EPS * Amp[r.name] * Fmag[tname]
                # (a) node values
                for j, nd in enumerate(nodes):
                    if nd is not None:
                        ev = float(table[nd])
                        _stat(f"node/{r.name}", abs(val[j] - ev), t)
                        if abs(val[j] - ev) > t:
                            res.fail(f"node-value:{r.name}",
                                     f"{ctxt}: at node {nd} got {val[j]!r}, table value {ev!r} (tol {t:.3g})")
                # (b) functions the method is exact for
                ev = None
                if tname == 'exact':
                    ev = poly_eval(case['poly'], mids, halfs, pts)
                    what = f"tensor polynomial of per-axis degree {axis_degrees(method, grids)}"
                elif rough_lin:
                    ev = rough_linear_eval(case, pts)
                    what = 'linear (ramp/constant) table'
                if ev is not None:
                    err = np.abs(val - ev)
                    _stat(f"exact/{r.name}", err[m], t)
                    bad = m & (err > t)
                    if bad.any():
                        j = int(np.argmax(bad))
                        res.fail(f"exactness:{r.name}",
                                 f"{ctxt}: {what} at x={b[j]}: got {val[j]!r} expected {ev[j]!r} "
                                 f"(|err| {err[j]:.3g} tol {t:.3g})")
                # (b') independent interpolants on rough tables
                if tname == 'rough' and method in ('slinear', 'scipy_slinear', 'cubic'):
                    if method == 'cubic':
                        ev2 = ref_natural_cubic(grids, table, pts[m])
                        nm = 'natural-cubic-interpolant'
                    else:
                        ev2 = ref_multilinear(grids, table, pts[m])
                        nm = 'multilinear-interpolant'
                    err = np.abs(val[m] - ev2)
                    _stat(f"{nm}/{r.name}", err, t)
                    if (err > t).any():
                        j = int(np.argmax(err))
                        res.fail(f"{nm}:{r.name}",
                                 f"{ctxt}: at x={pts[m][j].tolist()} got {val[m][j]!r} expected {ev2[j]!r} "
                                 f"(tol {t:.3g})")
            # (c) fixed == general
            if 'general' in got and 'fixed' in got and m.any():
                t = TOL_K * EPS * (Amp[method] + Amp[fixed]) * Fmag[tname]
                ref_role = 'general'
                if known_1d_akima_options(fixed, opts):
                    d = np.abs(got['general'] - got['fixed'])
                    bad = m & (d > t)
                    if bad.any():
                        j = int(np.argmax(bad))
                        res.fail('F17-1D-akima-ignores-options:fixed-vs-general',
                                 f"{tname} table at x={b[j]}: 1D-akima(delta_x={opts['delta_x']}) "
                                 f"{got['fixed'][j]!r} vs akima(delta_x={opts['delta_x']}) {got['general'][j]!r} "
                                 f"(tol {t:.3g})")
                        # keep judging behind F17: the table must at least equal akima with default options
                        ref_role = 'general-default-options'
                if ref_role in got:
                    d = np.abs(got[ref_role] - got['fixed'])
                    bad = m & (d > t)
                    if fixed == '1D-akima':
                        f18 = np.array([known_akima4_point(grids, q) for q in b])
                        if (bad & f18).any():
                            j = int(np.argmax(bad & f18))
                            res.fail('F18-akima-4-point-grid-middle-cell:fixed-vs-general',
                                     f"{tname} table, via {via}, 4-point grid {grids[0]}, x={b[j]} in the middle "
                                     f"cell: 1D-akima {got['fixed'][j]!r} vs akima {got[ref_role][j]!r} (tol {t:.3g})")
                        bad = bad & ~f18
                        d = np.where(f18, 0.0, d)
                    _stat(f"fixed/{fixed}", d[m], t)
                    if bad.any():
                        j = int(np.argmax(bad))
                        res.fail(f"fixed-vs-general:{fixed}",
                                 f"{tname} table, via {via}, at x={b[j]}: {fixed} {got['fixed'][j]!r} vs {method} "
                                 f"{got[ref_role][j]!r} (tol {t:.3g})")

    if judged_inb:
        cls.append('judged_inbounds')
    if any_boundary:
        cls.append('boundary_query')
    if any_oob_expected:
        cls.append('oob_expected')
    if len(calls) > 1:
        cls.append('multi_batch')
    if len(calls) >= 3 and all(len(b) == 1 for b in calls):
        cls.append('single_point_history')
    res.classes = cls
    res.nontrivial = judged_inb and (nonpos or dim >= 2 or any_boundary)
    return res


def _check_oob_attrs(res, err, grids, batch, name):
    """OutOfBoundsError documents idx/value/lower/upper of 'the variable that is out of bounds'."""
    try:
        i = int(err.idx)
        g = grids[i]
        col = [p[i] for p in batch]
        outside = [x for x in col if x < g[0] or x > g[-1]]
        sc = lambda v: float(np.asarray(v, dtype=float).ravel()[0])      # the semi tables hold (n, 1) grids
        ok = bool(outside) and sc(err.value) in outside and sc(err.lower) == g[0] and sc(err.upper) == g[-1]
    except Exception as e:      # attribute missing / index out of range: also untruthful
        ok = False
    if not ok:
        res.fail('oob:attributes-do-not-name-a-violating-coordinate',
                 f"{name} batch {batch}: idx={getattr(err, 'idx', None)} value={getattr(err, 'value', None)} "
                 f"lower={getattr(err, 'lower', None)} upper={getattr(err, 'upper', None)}")


# ---------------------------------------------------------------------------------------------
# Hypothesis strategy
# ---------------------------------------------------------------------------------------------

def _nice(lo, hi):
    from hypothesis import strategies as st
    return st.floats(lo, hi, allow_nan=False, allow_infinity=False, width=64)


def strategy(semi=False):
    from hypothesis import strategies as st

    @st.composite
    def axis(draw, nmin, nmax):
        n = draw(st.integers(nmin, nmax))
        pattern = draw(st.sampled_from(['uniform', 'mild', 'mild', 'wild']))
        if pattern == 'uniform' and draw(st.booleans()):
            # exactly uniform in floating point: integer multiples of a power of two, any sign class
            step = draw(st.sampled_from([0.25, 1.0, 2.0, 8.0]))
            sign = draw(st.sampled_from(['neg', 'end0', 'straddle', 'start0', 'pos']))
            k0 = {'neg': -(n + draw(st.integers(0, 20))), 'end0': -(n - 1), 'straddle': -draw(st.integers(1, n - 1)),
                  'start0': 0, 'pos': draw(st.integers(1, 20))}[sign]
            if sign == 'straddle' and k0 == -(n - 1):
                sign = 'end0'
            return [float((k0 + i) * step) for i in range(n)], sign, 'uniform-exact'
        if pattern == 'uniform':
            u = [1.0] * (n - 1)
        elif pattern == 'mild':
            u = [draw(_nice(0.5, 2.0)) for _ in range(n - 1)]
        else:
            u = [draw(st.sampled_from([0.1, 0.3, 1.0, 1.0])) * draw(_nice(0.8, 1.0)) for _ in range(n - 1)]
        scale = draw(st.sampled_from([0.01, 1.0, 1.0, 100.0])) * draw(_nice(0.5, 2.0))
        h = [x * scale for x in u]
        span = float(sum(h))
        sign = draw(st.sampled_from(['neg', 'end0', 'straddle', 'start0', 'pos']))
        if sign in ('pos', 'start0', 'straddle'):
            if sign == 'pos':
                start = span * draw(st.sampled_from([0.01, 0.5, 3.0, 10.0])) * draw(_nice(0.5, 1.0))
            elif sign == 'start0':
                start = 0.0
            else:
                start = -span * draw(_nice(0.05, 0.95))
            g = [start]
            for x in h:
                g.append(g[-1] + x)
            if sign == 'straddle' and draw(st.booleans()) and n > 2:
                # put a node exactly at zero
                k = draw(st.integers(1, n - 2))
                off = g[k]
                g = [x - off for x in g]
                g[k] = 0.0
        else:
            end = 0.0 if sign == 'end0' else -span * draw(st.sampled_from([0.01, 0.5, 3.0, 10.0])) * draw(_nice(0.5, 1.0))
            g = [end]
            for x in reversed(h):
                g.append(g[-1] - x)
            g = g[::-1]
        g = [float(x) for x in g]
        if not all(b > a for a, b in zip(g, g[1:])) or (sign == 'straddle' and not (g[0] < 0 < g[-1])):
            # round-off collapsed a spacing: fall back to an exactly representable grid of the same sign class
            base = {'neg': -float(n + 1), 'end0': -float(n - 1), 'straddle': -1.0, 'start0': 0.0, 'pos': 1.0}[sign]
            g = [base + float(i) for i in range(n)]
        return g, sign, pattern

    @st.composite
    def coord(draw, g, allow_out, force_out=False):
        n = len(g)
        span = g[-1] - g[0]
        kinds = ['node', 'interior', 'interior', 'lo', 'hi']
        if allow_out:
            kinds += ['out']
        kind = 'out' if force_out else draw(st.sampled_from(kinds))
        if kind == 'node':
            return g[draw(st.integers(0, n - 1))]
        if kind == 'lo':
            return g[0]
        if kind == 'hi':
            return g[-1]
        if kind == 'interior':
            k = draw(st.integers(0, n - 2))
            t = draw(st.sampled_from([0.5, 0.25, 0.9, 0.001, 0.999, None]))
            if t is None:
                t = draw(_nice(0.01, 0.99))
            x = g[k] + t * (g[k + 1] - g[k])
            if not (g[k] < x < g[k + 1]):
                x = 0.5 * (g[k] + g[k + 1])
            return float(x)
        d = draw(st.sampled_from([1e-6, 1e-3, 0.1, 1.0])) * draw(_nice(1.0, 2.0))
        if draw(st.booleans()):
            return float(g[0] - d * span)
        return float(g[-1] + d * span)

    @st.composite
    def case(draw):
        if semi:
            via = draw(st.sampled_from(['semi', 'semi', 'semicomp']))
            method = draw(st.sampled_from(SEMI_METHODS))
        else:
            via = draw(st.sampled_from(['interp'] * 5 + ['mmsc']))
            method = draw(st.sampled_from(BASE_METHODS[:5] * 3 + BASE_METHODS[5:]))
        dim = draw(st.sampled_from([1, 2, 2, 3, 3])) if not semi else draw(st.sampled_from([2, 2, 3]))
        nmin = MIN_POINTS[method]
        nmax = {1: 8, 2: 7, 3: 6}[dim]
        if method.startswith('scipy'):
            nmax = {1: 8, 2: 7, 3: 5}[dim]
        axes = [draw(axis(nmin, max(nmin, nmax))) for _ in range(dim)]
        grids = [a[0] for a in axes]
        extrap = draw(st.booleans())
        # polynomial the method is exact for: always the top tensor term plus up to 5 drawn lower ones
        degs = axis_degrees(method, grids)
        top = [list(degs), draw(_nice(-1.0, 1.0).filter(lambda v: abs(v) > 0.05))]
        terms = [top]
        for _ in range(draw(st.integers(1, 5))):
            terms.append([[draw(st.integers(0, d)) for d in degs], draw(_nice(-1.0, 1.0))])
        fscale = draw(st.sampled_from([1.0, 1.0, 1e-3, 1e3]))
        terms = [[p, c * fscale] for p, c in terms]
        rkind = draw(st.sampled_from(['cos'] * 7 + ['ramp', 'ramp', 'const']))
        if rkind == 'cos':
            rough = {'kind': 'cos', 'w': [draw(_nice(0.5, 3.0)) for _ in range(dim)], 'phi': draw(_nice(0.0, 6.0)),
                     'amp': draw(st.sampled_from([1.0, 1e-3, 1e3])) * draw(_nice(0.5, 2.0))}
        elif rkind == 'ramp':
            rough = {'kind': 'ramp', 'a': [float(draw(st.integers(-3, 3))) for _ in range(dim)],
                     'c0': float(draw(st.integers(-5, 5)))}
        else:
            rough = {'kind': 'const', 'c0': draw(st.sampled_from([0.0, 1.0, -2.5, 1e3]))}
        # one case in four is a history of 3-6 single-point calls on the same object that alternates between points
        # outside the grid (when extrapolating), the boundary cells and the boundary nodes: the scalar code paths keep
        # per-cell coefficient caches and the last bracket index between calls
        history = draw(st.sampled_from([False, False, False, True]))
        if history:
            ncalls = draw(st.integers(3, 6))
            sizes = [1] * ncalls
        else:
            ncalls = draw(st.sampled_from([1, 2, 2, 3]))
            if via in ('mmsc', 'semicomp'):
                m = draw(st.sampled_from([1, 1, 2, 3]))
                sizes = [m] * ncalls
            else:
                sizes = [draw(st.sampled_from([1, 1, 2, 3, 4])) for _ in range(ncalls)]
        calls = []
        for m in sizes:
            if history:
                pt = []
                out_axis = draw(st.integers(0, dim - 1)) if (extrap and draw(st.booleans())) else -1
                for i, g in enumerate(grids):
                    if i == out_axis:
                        pt.append(draw(coord(g, True, True)))
                        continue
                    where = draw(st.sampled_from(['first', 'last', 'lo', 'hi', 'any']))
                    if where == 'lo':
                        pt.append(float(g[0]))
                    elif where == 'hi':
                        pt.append(float(g[-1]))
                    elif where == 'any':
                        pt.append(draw(coord(g, False)))
                    else:
                        k = 0 if where == 'first' else len(g) - 2
                        t = draw(st.sampled_from([0.5, 0.25, 0.9, 0.001, 0.999]))
                        x = g[k] + t * (g[k + 1] - g[k])
                        pt.append(float(x if g[k] < x < g[k + 1] else 0.5 * (g[k] + g[k + 1])))
                calls.append([pt])
                continue
            allow_out = draw(st.sampled_from([False, False, True]))
            batch = []
            for _ in range(m):
                pt_out = allow_out and draw(st.booleans())
                forced = draw(st.integers(0, dim - 1)) if pt_out else -1
                batch.append([draw(coord(g, pt_out, i == forced)) for i, g in enumerate(grids)])
            calls.append(batch)
        c = {'method': method, 'grids': grids, 'extrapolate': extrap, 'via': via, 'poly': terms, 'rough': rough,
             'calls': calls, 'signs': [a[1] for a in axes], 'spacings': [a[2] for a in axes]}
        if method == 'akima':
            c['delta_x'] = draw(st.sampled_from([0.0, 0.0, 0.1]))
        if dim == 1 and via == 'interp':
            c['points_form'] = draw(st.sampled_from(['array', 'tuple']))
        return c

    return case()


# ---------------------------------------------------------------------------------------------
# work units
# ---------------------------------------------------------------------------------------------

def units(tier, seed):
    nshards = 16 if tier == 'quick' else 32
    per = 260 if tier == 'quick' else 6000
    us = []
    for i in range(nshards):
        # every eighth shard exercises the semi-structured interpolator on full tensor grids
        us.append({'kind': 'random', 'n': per, 'seed': core.shard_seed(seed, ID, i), 'semi': i % 8 == 7})
    return us


def run_unit(unit, ctx):
    core.run_hypothesis(ctx, strategy(semi=bool(unit.get('semi'))), check, unit['n'], unit['seed'],
                        shrink=unit.get('tier') == 'thorough')
