"""C11  Assembled Jacobian formats represent the same linear operator.

Oracle : the reference dense operator [dR/du | dR/dx] of the spec (vfw/refmodel.py) ; every format (matrix-free
         dictionary, dense, csc, csr assembled) must give A_ref @ x in fwd and A_ref^T @ r in rev after every step of an
         update history (new input values, complex-step dtype switches), and so all formats agree with each other.
"""
import copy

import numpy as np

from vfw import core
from vfw.core import Result

ID = 'C11'
LEVEL = 'exploration'
TECHNIQUE = 'Hypothesis-generated sub-jacobian collections and update histories; reference dense operator as oracle; differential across dictionary/dense/csc/csr'
RULE = ("case = model spec (dense and rows/cols-sparse sub-jacobians, implicit state blocks, src_indices incl. duplicated and "
        "negative source positions, several inputs of one component fed from one source with different unit factors) + seed "
        "vectors + a history of 1-4 steps (new independent values, complex-step mode on/off). For each of the four formats the "
        "root group owns the jacobian; after every step run_linearize + run_apply_linear fwd and rev on the root are compared "
        "with the reference operator. Non-trivial = src_indices column mapping, or a unit factor, or >=2 updates with a dtype "
        "switch. Distinct = distinct canonical JSON.")
ASSUMPTIONS = [
    "the operator is observed through System.run_apply_linear on the root group (what every linear solver consumes)",
    "DirectSolver owns the jacobian for dictionary/dense/csc; csr is owned by ScipyKrylov (DirectSolver rejects csr by "
    "design) and, because ScipyKrylov does not run under complex step, csr histories contain no dtype switch",
    "tolerance 1e-11 * (|A_ref| |x| scale) per entry",
]
MIN_CLASS_FRACTION = {'judged': 0.5}

FORMATS = ['dict', 'dense', 'csc', 'csr']


def with_format(spec, fmt):
    s = copy.deepcopy(spec)
    for key, g in s['groups'].items():
        g.pop('ln_opts', None)
        g.pop('jac_type', None)
        if g.get('ln') == 'direct':
            g['ln_opts'] = {'assemble_jac': False}
    root = s['groups'].setdefault('', {})
    # DirectSolver owns the jacobian where it can (it supports complex step); csr needs ScipyKrylov
    root['ln'] = 'krylov' if fmt == 'csr' else 'direct'
    root['ln_opts'] = {'assemble_jac': False}
    if fmt != 'dict':
        root['ln_opts'] = {'assemble_jac': True}
        root['jac_type'] = fmt
        for c in s['comps']:
            if c.get('style') == 'matfree':
                c['style'] = 'dense'
    return s


def known_f3(spec):
    """F3: one component has two inputs connected to the same source with different unit factors."""
    from vfw.refmodel import RefModel
    ref = RefModel(spec)
    for c in ref.comps:
        seen = {}
        for v in c['inputs']:
            m = ref.inmap['.'.join(c['path'] + [c['name'], v['name']])]
            if m['kind'] == 'const':
                continue
            if m['src'] in seen and seen[m['src']] != m['f']:
                return True
            seen.setdefault(m['src'], m['f'])
    return False


def check(case):
    import openmdao.api as om
    from vfw.gen_model import build_problem
    from vfw.refmodel import RefModel
    from vfw.props.c01 import spec_flags
    from vfw.props.c02 import _seed
    spec = case['spec']
    res = Result()
    flags = spec_flags(spec)
    cls = sorted(flags)
    ref = RefModel(spec)
    f3 = known_f3(spec)
    if f3:
        cls.append('f3_form')
    nsteps = 0
    dtype_switch = False
    for fmt in FORMATS:
        sp = with_format(spec, fmt)
        sig_pre = ''
        try:
            p, groups = build_problem(sp, mode='rev', force_alloc_complex=True)
            p.final_setup()
        except Exception as e:
            sig = core.repo_frame_signature(e, 'setup')
            if sig is None:
                raise
            res.fail(sig_pre + sig, f"{fmt}: {type(e).__name__}: {e}")
            continue
        root = p.model
        outs = list(root._var_allprocs_abs2meta['output'])
        sizes = {n: root._var_allprocs_abs2meta['output'][n]['size'] for n in outs}
        ntot = sum(sizes.values())
        kind = {}
        for c in spec['comps']:
            for v in c['outputs']:
                kind['.'.join(c['path'] + [c['name'], v['name']])] = c['kind']
        in_cs = False   # the operator is always observed in real mode
        for si, step in enumerate(case['history']):
            x = ref.x0.copy()
            newx = _seed(step['x'], ref.nx) * 2.0
            x = newx if step.get('setx') else x
            try:
                if step.get('cs') and fmt != 'csr':
                    # dtype switch: a complex-step evaluation (nonlinear solve with a complex jacobian) and back
                    dirv = _seed(step['x'][::-1], ref.nx)
                    p.set_complex_step_mode(True)
                    for n, m in ref.xvars.items():
                        sl = slice(m['off'], m['off'] + m['size'])
                        p.set_val(n, (x[sl] + 1e-40j * dirv[sl]).reshape(m['shape']))
                    p.run_model()
                    uc = np.zeros(ref.nu, dtype=complex)
                    for n, m in ref.uvars.items():
                        uc[m['off']:m['off'] + m['size']] = np.asarray(p.get_val(n)).ravel()
                    p.set_complex_step_mode(False)
                    dtype_switch = True
                    if np.all(np.isfinite(uc.real)):
                        ur, rn = ref.solve(uc.real, x)
                        if rn < 1e-10:
                            dudx, cond = ref.totals(ur, x)
                            if np.isfinite(cond) and cond < 1e8:
                                exp = dudx @ dirv
                                got = uc.imag / 1e-40
                                # the imaginary part of a Newton iterate lags one iteration behind the real part, so the
                                # complex-step derivative is only as accurate as the previous Newton step (~sqrt(tol)):
                                # this clause is a gross-error check, the operator clauses below are the sharp ones
                                tol = 1e-4 * max(1.0, cond) * (np.max(np.abs(exp)) if exp.size else 0.0) + 1e-8
                                if np.any(np.abs(got - exp) > tol):
                                    res.fail(f"{sig_pre}complex-step:{fmt}-directional-derivative-differs",
                                             f"{fmt} step {si}: got {got.tolist()} expected {exp.tolist()}")
                for n, m in ref.xvars.items():
                    p.set_val(n, x[m['off']:m['off'] + m['size']].reshape(m['shape']))
                p.run_model()
                root.run_linearize()
            except om.AnalysisError:
                res.discard = 'nonconverged'
                res.classes = cls + ['nonconverged']
                return res
            except Exception as e:
                sig = core.repo_frame_signature(e, 'update')
                if sig is None:
                    raise
                res.fail(sig_pre + sig, f"{fmt} step {si}: {type(e).__name__}: {e}")
                break
            u = np.zeros(ref.nu)
            for n, m in ref.uvars.items():
                u[m['off']:m['off'] + m['size']] = np.asarray(p.get_val(n)).real.ravel()
            if not np.all(np.isfinite(u)):
                res.discard = 'nonfinite'
                return res
            Ju, Jx = ref.jacobians(u, x)
            # OpenMDAO sign convention: explicit residual = f(x) - y  (reference uses y - f(x))
            sgn = np.ones(ref.nu)
            for n, m in ref.uvars.items():
                if kind[n] == 'aff':
                    sgn[m['off']:m['off'] + m['size']] = -1.0
            xo = _seed(case['s1'][si:] + case['s1'][:si], ntot)
            r = _seed(case['s3'][si:] + case['s3'][:si], ntot)

            def split(vec):
                du = np.zeros(ref.nu)
                dx = np.zeros(ref.nx)
                o = 0
                for n in outs:
                    sz = sizes[n]
                    if n in ref.uvars:
                        m = ref.uvars[n]
                        du[m['off']:m['off'] + sz] = vec[o:o + sz]
                    else:
                        m = ref.xvars[n]
                        dx[m['off']:m['off'] + sz] = vec[o:o + sz]
                    o += sz
                return du, dx

            def join(du, dx):
                out = np.zeros(ntot)
                o = 0
                for n in outs:
                    sz = sizes[n]
                    if n in ref.uvars:
                        m = ref.uvars[n]
                        out[o:o + sz] = du[m['off']:m['off'] + sz]
                    else:
                        m = ref.xvars[n]
                        out[o:o + sz] = dx[m['off']:m['off'] + sz]
                    o += sz
                return out
            du, dx = split(xo)
            exp_fwd = join(sgn * (Ju @ du + Jx @ dx), -dx)
            ru, rx = split(r)
            exp_rev = join(Ju.T @ (sgn * ru), Jx.T @ (sgn * ru) - rx)
            mag_f = join(np.abs(Ju) @ np.abs(du) + np.abs(Jx) @ np.abs(dx), np.abs(dx))
            mag_r = join(np.abs(Ju).T @ np.abs(ru), np.abs(Jx).T @ np.abs(ru) + np.abs(rx))
            try:
                root._dinputs.set_val(0.0)
                root._dresiduals.set_val(0.0)
                root._doutputs.set_val(xo)
                root.run_apply_linear('fwd')
                got_f = np.asarray(root._dresiduals.asarray()).real.copy()
                root._dinputs.set_val(0.0)
                root._doutputs.set_val(0.0)
                root._dresiduals.set_val(r)
                root.run_apply_linear('rev')
                got_r = np.asarray(root._doutputs.asarray()).real.copy()
            except Exception as e:
                sig = core.repo_frame_signature(e, 'apply')
                if sig is None:
                    raise
                res.fail(sig_pre + sig, f"{fmt} step {si}: {type(e).__name__}: {e}")
                break
            for name, got, exp, mag in (('fwd', got_f, exp_fwd, mag_f), ('rev', got_r, exp_rev, mag_r)):
                # 1e-11 absolute on the scale of the products, plus 1e-9 relative: the tanh' factors of the generated
                # components are evaluated at arguments of up to ~1e6 (unit factors such as h -> ms), where the round-off
                # of the unit conversion itself (1e-16 * 1e6) changes 1 - tanh^2 by ~1e-10 relative
                tol = 1e-11 * (mag + 1.0) + 1e-9 * np.abs(exp)
                if got.shape != exp.shape or np.any(np.abs(got - exp) > tol):
                    res.fail(f"{sig_pre}operator:{fmt}-{name}-differs-from-reference",
                             f"{fmt} step {si} cs={in_cs} {name}: got {got.tolist()} expected {exp.tolist()}")
            nsteps += 1
    res.nontrivial = bool(flags & {'src_indices', 'unit_factor'}) or (dtype_switch and len(case['history']) >= 2)
    res.classes = cls + ['judged'] + (['dtype_switch'] if dtype_switch else [])
    return res


def strategy(tier):
    from hypothesis import strategies as st
    from vfw.gen_spec import model_spec, profile

    @st.composite
    def case(draw):
        # (mild unit factors only: with factors like h -> ms the tanh' terms are evaluated at arguments of 1e6-1e7, where
        # the round-off of the conversion itself changes the exact jacobian entries by up to 1e-9 relative)
        spec = draw(model_spec(profile(styles=['dense', 'sparse', 'sparse'], assembled=False, max_comps=4, p_feedback=0.25, wild_units=False,
                                       cyc_nl=['newton'], cyc_ln=['direct'], p_neg_index=0.2)))
        sv = st.lists(st.integers(-8, 8), min_size=3, max_size=9)
        hist = draw(st.lists(st.fixed_dictionaries({'setx': st.booleans(), 'x': sv, 'cs': st.booleans()}), min_size=1, max_size=4))
        return {'spec': spec, 's1': draw(sv), 's3': draw(sv), 'history': hist}
    return case()


def units(tier, seed):
    n = 16 if tier == 'quick' else 32
    per = 25 if tier == 'quick' else 230
    return [{'kind': 'random', 'n': per, 'seed': core.shard_seed(seed, ID, i)} for i in range(n)]


def run_unit(unit, ctx):
    core.run_hypothesis(ctx, strategy(unit.get('tier')), check, unit['n'], unit['seed'], shrink=unit.get('tier') == 'thorough')
