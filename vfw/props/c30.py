"""C30  Complex-step-safe helpers agree with NumPy and differentiate exactly.

Domain : real scalars / arrays (zeros, -0.0, both signs, ties, magnitudes 1e-100..1e100) and complex
         perturbations x + i*h*d (h in {1e-30, 1e-40}) for openmdao.utils.cs_safe.abs / norm(axis) / arctan2 ;
         points placed relative to the transition scale mu for the jax helpers of openmdao.jax_funcs.smooth.
Oracle : NumPy (np.abs, np.linalg.norm, np.arctan2) for the real parts, analytic directional derivatives evaluated
         in numpy.longdouble for the imaginary parts ; NumPy renderings of the closed forms of the jax helpers and
         hand-derived derivatives of those closed forms for jax.grad ; implementation-independent brackets.
"""
import itertools

import numpy as np

from vfw import core
from vfw.core import Result

ID = 'C30'
LEVEL = 'exploration'
TECHNIQUE = ('Hypothesis-generated real arrays and complex-step perturbations + exhaustive enumeration of small '
             'sign/zero/direction patterns; NumPy and long-double analytic derivatives as reference oracle')
RULE = ("case = one call of cs_safe.abs / norm / arctan2 (operand form: python/NumPy scalar, float / int / complex "
        "array of rank<=3, optional axis, optional perturbation direction d with step h) or one batched call of a jax "
        "smooth helper (act_tanh, smooth_max, smooth_min, smooth_abs, smooth_round) with its jax.grad, on a python "
        "scalar, a (5,) or a (2,3) array, with drawn or defaulted mu. Elements are drawn from {0.0,-0.0,+-1}, "
        "[-1e3,1e3], signed magnitudes 10^[-100,100] and copies of earlier elements (ties); jax points are placed at "
        "z + mu*u with u from {0, tiny, transition, saturated}. A deterministic unit enumerates every x in "
        "{-2,-0.0,0.0,3}^n x d in {-1,0,1}^n (n<=3) for abs, all scalar forms, and all sign/zero patterns of "
        "(y,x,dy,dx) for arctan2. Non-trivial = cs case with a complex perturbation and (a zero element, or mixed "
        "signs, or an axis on rank>=2, or both operands perturbed) ; jax case with a tie/kink point or a point in the "
        "transition region |u|<3. Distinct = distinct canonical JSON of the case.")
ASSUMPTIONS = [
    "np.abs, np.linalg.norm (2-norm / Frobenius, axis None or int) and np.arctan2 on the real parts are the value specification",
    "the sign of a zero result is not judged (-0.0 == 0.0)",
    "norm and arctan2 are documented through their naive formulas sqrt(sum(x**2)) and (c*b-a*d)/(a**2+c**2): magnitudes are kept in "
    "[1e-100,1e100] (or exactly 0) so that squares neither overflow nor underflow; derivative of norm/arctan2 at the origin is not judged",
    "abs at x == 0: arrays must follow the rule documented in the source comment (sign of the imaginary part: derivative |d|); "
    "for python/NumPy scalars no rule is documented and either one-sided derivative (+d or -d) is accepted",
    "tolerances: values of abs/arctan2 4 ulp, norm (n+4) ulp; imaginary parts (n+8)*eps times the sum of magnitudes of the "
    "terms of the analytic derivative (its condition number)",
    "jax helpers: the closed forms are those of the source/docstrings (tanh activation blend); XLA's tanh and the "
    "autodiff form 1-tanh^2 are trusted to 4 eps absolute, which sets the tolerance 64*eps*(sum of term magnitudes) "
    "with |u| capped at 40 where tanh saturates exactly",
    "mu > 0 only (the helpers are documented singular at mu = 0); mu, z, a, b are scalars as documented",
]
BOUND = {'quick': 'enumeration of sign/zero patterns up to length 3 + 33k random cs cases + 4.8k jax batches',
         'thorough': 'same enumeration + ~1e6 random cs cases + ~6e4 jax batches'}
MIN_CLASS_FRACTION = {'complex': 0.3, 'kink': 0.05}

EPS = float(np.finfo(float).eps)
LD = np.longdouble


# ---------------------------------------------------------------------------------------------
# cs_safe
# ---------------------------------------------------------------------------------------------

def _arr(vals, shape, dtype=float):
    return np.array(vals, dtype=dtype).reshape(shape)


def _operand(vals, dirs, shape, form, h):
    """Build the operand passed to the function under test; returns (operand, real part array, direction array)."""
    if form in ('pyfloat', 'npfloat', 'pyint', 'pycomplex', 'npcomplex'):
        x = vals[0]
        d = 0.0 if dirs is None else dirs[0]
        if form == 'pyfloat':
            op = float(x)
        elif form == 'npfloat':
            op = np.float64(x)
        elif form == 'pyint':
            op = int(x)
        elif form == 'pycomplex':
            op = complex(float(x), h * d)
        else:
            op = np.complex128(complex(float(x), h * d))
        return op, np.asarray(float(x)), np.asarray(float(d))
    if form == 'intarray':
        xr = _arr(vals, shape, int)
        return xr, xr.astype(float), np.zeros(xr.shape)
    xr = _arr(vals, shape)
    if dirs is None:
        return xr, xr, np.zeros(xr.shape)
    d = _arr(dirs, shape)
    z = np.empty(xr.shape, dtype=complex)     # (xr + 1j*h*d would turn a -0.0 real part into +0.0)
    z.real = xr
    z.imag = h * d
    return z, xr, d


def _is_cplx(form, dirs):
    return form in ('pycomplex', 'npcomplex') or (dirs is not None and form == 'array')


def _cmp_imag(res, name, got_im, expect, scale, h, n, skip=None):
    """imaginary part == h * analytic derivative within (n+8)*eps*h*scale (+ underflow floor)."""
    got_im = np.asarray(got_im, dtype=float)
    expect = np.asarray(expect, dtype=LD)
    scale = np.asarray(scale, dtype=LD)
    if got_im.shape != expect.shape:
        res.fail(f"{name}:imag-shape", f"got {got_im.shape} expected {expect.shape}")
        return
    tol = (n + 8) * EPS * h * scale + LD(1e-300)
    err = np.abs(got_im.astype(LD) - h * expect)
    bad = ~(err <= tol)          # also catches nan
    if skip is not None:
        bad &= ~skip
    if np.any(bad):
        i = int(np.argmax(bad.ravel())) if bad.ndim else 0
        g = float(np.asarray(got_im).ravel()[i]) / h
        e = float(np.asarray(expect).ravel()[i])
        res.fail(f"{name}:derivative", f"imag/h={g!r} analytic={e!r} (element {i}, tol={float(np.asarray(tol).ravel()[i]) / h:.3g})")


def abs_sign_real_mask(xr, d, h):
    """Elements on which NumPy-2 `np.sign(x + i*h*d).real` (= x/|x + i*h*d|) is not exactly sign(x): the step is not
    negligible against a non-zero real part (|x| < ~7e7*|h*d|)."""
    with np.errstate(all='ignore'):
        ratio = np.abs(xr) / np.hypot(xr, h * d)
    return (xr != 0) & (d != 0) & (ratio != 1.0)


def known_abs_tiny_real(case):
    """F-C30-1: cs_safe.abs on a complex *array* having an element whose non-zero real part is so small that
    np.sign(x).real != sign(x.real) (NumPy 2 emulation of the 1.x rule uses np.sign(x).real)."""
    if case.get('fn') != 'abs' or case.get('form') != 'array' or case.get('d') is None:
        return False
    xr = np.array(case['x'], dtype=float)
    d = np.array(case['d'], dtype=float)
    return bool(np.any(abs_sign_real_mask(xr, d, case['h'])))


def check_abs(case, res):
    from openmdao.utils import cs_safe
    h = case['h']
    form = case['form']
    shape = case.get('shape') or []
    op, xr, d = _operand(case['x'], case.get('d'), shape, form, h)
    cplx = _is_cplx(form, case.get('d'))
    scalar = form not in ('array', 'intarray')
    cls = ['abs', 'scalar' if scalar else 'array', 'complex' if cplx else 'real']
    haszero = bool(np.any(xr == 0))
    mixed = bool(np.any(xr > 0) and np.any(xr < 0))
    if haszero:
        cls.append('kink')
    if mixed:
        cls.append('mixed_signs')
    res.classes = cls
    res.nontrivial = cplx and (haszero or mixed)
    try:
        with np.errstate(all='ignore'):
            out = cs_safe.abs(op)
    except Exception as e:
        res.fail(core.repo_frame_signature(e, 'abs') or f"abs:raises-{type(e).__name__}", f"{type(e).__name__}: {e}")
        return
    out = np.asarray(out)
    if out.shape != xr.shape:
        res.fail('abs:shape', f"got {out.shape} expected {xr.shape}")
        return
    ref = np.abs(xr)
    known = known_abs_tiny_real(case)
    kmask = abs_sign_real_mask(xr, d, h) if known else np.zeros(xr.shape, dtype=bool)
    if known:
        res.classes.append('tiny_real_vs_step')
    badv = ~(out.real == ref)
    if np.any(badv):
        if known and not np.any(badv & ~kmask):
            sig = 'abs:F1-tiny-real-part-vs-step:value'
        else:
            sig = 'abs:value-array' if not scalar else 'abs:value-scalar'
        res.fail(sig, f"real part {out.real.tolist()} expected np.abs = {ref.tolist()} (h*d={(h * d).tolist()})")
    if not cplx:
        if np.iscomplexobj(out) and np.any(out.imag != 0):
            res.fail('abs:imag-from-real-input', f"{out.tolist()}")
        return
    im = out.imag if np.iscomplexobj(out) else np.zeros(out.shape)
    nz = xr != 0
    if scalar:
        # either one-sided derivative is accepted at the kink of the scalar branch
        exp = np.where(nz, np.sign(xr) * d, np.where(im < 0, -np.abs(d), np.abs(d)))
    else:
        exp = np.where(nz, np.sign(xr) * d, np.abs(d))   # documented NumPy-1.x rule: sign of the perturbation
    tol = 8 * EPS * h * np.abs(d).astype(LD) + LD(1e-300)
    bad = ~(np.abs(im.astype(LD) - h * exp.astype(LD)) <= tol)
    if np.any(bad):
        # root cause as a predicate over the input: does the wrong element sit on the kink (x == 0) or not
        where = 'kink' if not np.any(bad & nz) else 'nonzero'
        i = int(np.argmax(bad.ravel())) if bad.ndim else 0
        sig = f"abs:derivative-{where}-{'scalar' if scalar else 'array'}"
        if known and not np.any(bad & ~kmask):
            sig = 'abs:F1-tiny-real-part-vs-step:derivative'
        res.fail(sig,
                 f"imag/h={float(np.asarray(im).ravel()[i]) / h!r} analytic={float(np.asarray(exp).ravel()[i])!r} "
                 f"x={float(xr.ravel()[i])!r} d={float(d.ravel()[i])!r} (element {i})")


def check_norm(case, res):
    from openmdao.utils import cs_safe
    h = case['h']
    form = case['form']
    shape = case['shape']
    axis = case.get('axis')
    op, xr, d = _operand(case['x'], case.get('d'), shape, form, h)
    cplx = _is_cplx(form, case.get('d'))
    cls = ['norm', 'complex' if cplx else 'real', 'axis' if axis is not None else 'noaxis', f"rank{len(shape)}"]
    if form == 'intarray':
        cls.append('intarray')
    ref = np.linalg.norm(xr, axis=axis)
    n = xr.size if axis is None else xr.shape[axis]
    xl = xr.astype(LD)
    refl = np.sqrt(np.sum(xl * xl, axis=axis))
    origin = np.asarray(refl == 0)
    if np.any(origin):
        cls.append('kink')
    # complex-step premise: the step must be small against the distance to the singularity of sqrt at the origin.
    # slices with 0 < ||x|| < 1e9*h*||d|| are not judged (the h^2 terms of (x+ihd)^2 are not negligible there).
    dnorm = np.sqrt(np.sum(d.astype(LD) ** 2, axis=axis))
    near = np.asarray((refl > 0) & (refl < 1e9 * h * dnorm)) if cplx else np.zeros(np.shape(refl), dtype=bool)
    if np.any(near):
        cls.append('norm_step_not_small_skipped')
    res.classes = cls
    res.nontrivial = cplx and ((axis is not None and len(shape) >= 2) or bool(np.any(xr == 0))
                               or bool(np.any(xr > 0) and np.any(xr < 0)))
    try:
        with np.errstate(all='ignore'):
            out = np.asarray(cs_safe.norm(op) if case.get('axis_omitted') else cs_safe.norm(op, axis=axis))
    except Exception as e:
        res.fail(core.repo_frame_signature(e, 'norm') or f"norm:raises-{type(e).__name__}", f"{type(e).__name__}: {e}")
        return
    if out.shape != np.shape(ref):
        res.fail('norm:shape', f"got {out.shape} expected {np.shape(ref)} (axis={axis})")
        return
    rtol = (n + 4) * EPS
    outr = np.where(near, ref, out.real)
    if not (core.close(outr, ref, rtol=rtol) and core.close(outr, refl.astype(float), rtol=rtol)):
        res.fail('norm:value', f"got {out.real.tolist()} np.linalg.norm={np.asarray(ref).tolist()} axis={axis}")
    if not cplx:
        if np.iscomplexobj(out) and np.any(out.imag != 0):
            res.fail('norm:imag-from-real-input', f"{out.tolist()}")
        return
    dl = d.astype(LD)
    with np.errstate(all='ignore'):
        num = np.sum(xl * dl, axis=axis)
        mag = np.sum(np.abs(xl * dl), axis=axis)
        exp = np.where(origin, 0, num / np.where(origin, 1, refl))
        scale = np.where(origin, 0, mag / np.where(origin, 1, refl))
    im = out.imag if np.iscomplexobj(out) else np.zeros(out.shape)
    _cmp_imag(res, 'norm', im, exp, scale, h, n, skip=origin | near)


def check_arctan2(case, res):
    from openmdao.utils import cs_safe
    h = case['h']
    yop, yr, dy = _operand(case['y'], case.get('dy'), case.get('yshape') or [], case['yform'], h)
    xop, xr, dx = _operand(case['x'], case.get('dx'), case.get('xshape') or [], case['xform'], h)
    cy = _is_cplx(case['yform'], case.get('dy'))
    cx = _is_cplx(case['xform'], case.get('dx'))
    cplx = cy or cx
    yb, xb, dyb, dxb = np.broadcast_arrays(yr, xr, dy, dx)
    origin = (yb == 0) & (xb == 0)
    cls = ['arctan2', 'complex' if cplx else 'real']
    if cy and cx:
        cls.append('both_perturbed')
    elif cplx:
        cls.append('one_perturbed')
    if np.any(origin):
        cls.append('kink')
    if np.any((xb < 0) & ~origin):
        cls.append('left_half_plane')
    if np.any((xb == 0) ^ (yb == 0)):
        cls.append('on_axis')
    res.classes = cls
    res.nontrivial = cplx and ((cy and cx and bool(np.any((dyb != 0) & (dxb != 0)))) or bool(np.any(xb <= 0)))
    try:
        with np.errstate(all='ignore'):
            out = np.asarray(cs_safe.arctan2(yop, xop))
    except ZeroDivisionError as e:
        if cplx and np.any(origin):
            # python-complex 0/0 at the origin, where the derivative does not exist: outside the property
            res.discard = 'arctan2 of python complex scalars at the origin raises ZeroDivisionError (derivative undefined there)'
            return
        res.fail(core.repo_frame_signature(e, 'arctan2') or 'arctan2:raises-ZeroDivisionError', f"{type(e).__name__}: {e}")
        return
    except Exception as e:
        res.fail(core.repo_frame_signature(e, 'arctan2') or f"arctan2:raises-{type(e).__name__}",
                 f"{type(e).__name__}: {e}")
        return
    ref = np.arctan2(yb, xb)
    if out.shape != ref.shape:
        res.fail('arctan2:shape', f"got {out.shape} expected {ref.shape}")
        return
    # under a perturbation the origin is not judged at all (0/0 in the documented formula; nan*1j also reaches the real part)
    judged = ~origin if cplx else np.ones(ref.shape, dtype=bool)
    if not core.close(np.where(judged, out.real, 0.0), np.where(judged, ref, 0.0), rtol=4 * EPS):
        res.fail('arctan2:value', f"real part {out.real.tolist()} expected np.arctan2 = {ref.tolist()}")
    if not cplx:
        if np.iscomplexobj(out) and np.any(out.imag != 0):
            res.fail('arctan2:imag-from-real-input', f"{out.tolist()}")
        return
    yl, xl, dyl, dxl = (v.astype(LD) for v in (yb, xb, dyb, dxb))
    with np.errstate(all='ignore'):
        den = np.where(origin, 1, xl * xl + yl * yl)
        exp = np.where(origin, 0, (xl * dyl - yl * dxl) / den)
        scale = np.where(origin, 0, (np.abs(xl * dyl) + np.abs(yl * dxl)) / den)
    im = out.imag if np.iscomplexobj(out) else np.zeros(out.shape)
    _cmp_imag(res, 'arctan2', im, exp, scale, h, 0, skip=origin)


# ---------------------------------------------------------------------------------------------
# jax smooth helpers
# ---------------------------------------------------------------------------------------------

DEFAULTS = {'mu': 1.0e-2, 'z': 0.0, 'a': -1.0, 'b': 1.0}
K = 64.0
TINY = 1e-290
_GRADS = {}


def sech2(u):
    e = np.exp(-2.0 * np.abs(u))
    return 4.0 * e / (1.0 + e) ** 2


def _grad_fn(name, nargs):
    """jitted gradient of sum(f(*args)) with respect to every argument (cached per process)."""
    key = (name, nargs)
    if key not in _GRADS:
        import jax
        import jax.numpy as jnp
        from openmdao.jax_funcs import smooth
        f = getattr(smooth, name)
        _GRADS[key] = jax.jit(jax.grad(lambda *a: jnp.sum(f(*a)), argnums=tuple(range(nargs))))
    return _GRADS[key]


def _jshape(case):
    return {'s': (), 'v': (5,), 'm': (2, 3)}[case['shape']]


def _jarg(vals, case):
    if case['shape'] == 's':
        return float(vals[0])
    return np.array(vals, dtype=float).reshape(_jshape(case))


def _cmp(res, sig, got, ref, tol):
    got = np.asarray(got, dtype=float)
    ref = np.asarray(ref, dtype=float)
    tol = np.asarray(tol, dtype=float)
    if got.shape != ref.shape:
        res.fail(sig + '-shape', f"got {got.shape} expected {ref.shape}")
        return
    err = np.abs(got - ref)
    bad = ~(err <= tol + TINY)     # TINY: XLA flushes subnormal intermediates to zero
    if np.any(bad):
        i = int(np.argmax(bad.ravel())) if bad.ndim else 0
        res.fail(sig, f"got {got.ravel()[i]!r} closed form {ref.ravel()[i]!r} tol {np.broadcast_to(tol, got.shape).ravel()[i]:.3g} (element {i})")


def check_jax(case, res):
    from openmdao.jax_funcs import smooth
    fn = case['fn']
    f = getattr(smooth, fn)
    mu_given = case.get('mu') is not None
    mu = float(case['mu']) if mu_given else DEFAULTS['mu']
    x = _jarg(case['x'], case)
    xa = np.asarray(x, dtype=float)
    cls = [fn, 'jax', 'shape_' + case['shape'], 'mu_drawn' if mu_given else 'mu_default']
    full = bool(case.get('full', True))     # every documented argument passed explicitly

    if fn == 'act_tanh':
        z, a, b = (float(case[k]) if full else DEFAULTS[k] for k in ('z', 'a', 'b'))
        args = (x, mu, z, a, b) if full else ((x, mu) if mu_given else (x,))
        u = (xa - z) / mu
    elif fn in ('smooth_max', 'smooth_min'):
        y = _jarg(case['y'], case)
        ya = np.asarray(y, dtype=float)
        args = (x, y, mu) if mu_given else (x, y)
        u = (xa - ya) / mu
    elif fn == 'smooth_abs':
        args = (x, mu) if mu_given else (x,)
        u = xa / mu
    elif fn == 'smooth_round':
        args = (x, mu) if mu_given else (x,)
        fl = np.floor(xa)
        u = (xa - fl - 0.5) / mu
    else:
        raise ValueError(fn)
    ucap = np.minimum(np.abs(u), 40.0)
    kink = bool(np.any(u == 0))
    trans = bool(np.any(np.abs(u) < 3))
    if kink:
        cls.append('kink')
    if trans:
        cls.append('transition')
    if np.any(np.abs(u) > 20):
        cls.append('saturated')
    res.classes = cls
    res.nontrivial = kink or trans

    try:
        val = np.asarray(f(*args))
        grads = [np.asarray(g) for g in _grad_fn(fn, len(args))(*args)]
    except Exception as e:
        res.fail(core.repo_frame_signature(e, fn) or f"{fn}:raises-{type(e).__name__}", f"{type(e).__name__}: {e}")
        return
    if val.dtype != np.float64:
        res.fail(f"{fn}:dtype", f"result dtype {val.dtype} (x64 is enabled by the module)")

    t = np.tanh(u)
    s2 = sech2(u)
    e = K * EPS
    one = np.ones_like(xa)

    if fn == 'act_tanh':
        dy = b - a
        ref = 0.5 * dy * (1.0 + t) + a
        _cmp(res, 'act_tanh:value', val, ref, e * (abs(dy) + abs(a)) * one)
        lo, hi = min(a, b), max(a, b)
        if np.any(val < lo - e * (abs(dy) + abs(a)) - TINY) or np.any(val > hi + e * (abs(dy) + abs(a)) + TINY):
            res.fail('act_tanh:outside-[a,b]', f"{val.tolist()} not within [{lo},{hi}]")
        gref = [0.5 * dy * s2 / mu]
        gtol = [e * abs(dy) / mu * one]
        if len(args) >= 2:
            gref.append(np.sum(-0.5 * dy * s2 * u / mu))
            gtol.append(np.sum(e * abs(dy) / mu * (1 + ucap)))
        if len(args) == 5:
            gref += [np.sum(-0.5 * dy * s2 / mu), np.sum(0.5 * (1 - t)), np.sum(0.5 * (1 + t))]
            gtol += [np.sum(e * abs(dy) / mu * one), e * xa.size, e * xa.size]
        names = ['dx', 'dmu', 'dz', 'da', 'db']
    elif fn in ('smooth_max', 'smooth_min'):
        s = 0.5 * (1.0 + t)
        big, small = np.maximum(xa, ya), np.minimum(xa, ya)
        mag = np.abs(xa) + np.abs(ya)
        vtol = e * mag + TINY
        if fn == 'smooth_max':
            ref = s * xa + (1 - s) * ya
            exact, sgn = big, 1.0
        else:
            ref = s * ya + (1 - s) * xa
            exact, sgn = small, -1.0
        _cmp(res, f"{fn}:value", val, ref, vtol)
        # implementation-independent brackets
        if np.any(val < small - vtol) or np.any(val > big + vtol):
            res.fail(f"{fn}:outside-[min,max]", f"val={val.tolist()} x={xa.tolist()} y={ya.tolist()}")
        gap = np.abs(xa - ya) * 0.5 * (1 - np.tanh(np.abs(u)))
        if np.any(np.abs(val - exact) > gap + vtol):
            res.fail(f"{fn}:error-bound", f"val={val.tolist()} exact={exact.tolist()} bound={gap.tolist()}")
        sp = 0.5 * s2 / mu
        w = 0.5 * u * s2
        if fn == 'smooth_max':
            gref = [s + w, 1 - s - w]
        else:
            gref = [1 - s - w, s + w]
        gt = e * (1 + mag * sp + ucap)
        gtol = [gt, gt]
        if len(args) == 3:
            gref.append(np.sum(-sgn * 0.5 * u * u * s2))
            gtol.append(np.sum(e * (1 + (mag * sp + ucap) * ucap)))
        names = ['dx', 'dy', 'dmu']
    elif fn == 'smooth_abs':
        ref = xa * t
        vtol = e * np.abs(xa) + TINY
        _cmp(res, 'smooth_abs:value', val, ref, vtol)
        gap = np.abs(xa) * (1 - np.tanh(np.abs(u)))
        if np.any(np.abs(val - np.abs(xa)) > gap + vtol) or np.any(val < -vtol):
            res.fail('smooth_abs:error-bound', f"val={val.tolist()} |x|={np.abs(xa).tolist()} bound={gap.tolist()}")
        gref = [t + u * s2]
        gtol = [e * (1 + ucap)]
        if len(args) == 2:
            gref.append(np.sum(-u * u * s2))
            gtol.append(np.sum(e * (1 + ucap * ucap)))
        names = ['dx', 'dmu']
    else:
        ref = fl + 0.5 * (1.0 + t)
        vtol = e * (np.abs(fl) + 1)
        _cmp(res, 'smooth_round:value', val, ref, vtol)
        frac = xa - fl
        target = fl + np.where(frac > 0.5, 1.0, np.where(frac < 0.5, 0.0, 0.5))
        gap = 0.5 * (1 - np.tanh(np.abs(u)))
        if np.any(np.abs(val - target) > gap + vtol):
            res.fail('smooth_round:error-bound', f"val={val.tolist()} round={target.tolist()} bound={gap.tolist()}")
        gref = [0.5 * s2 / mu]
        gtol = [e / mu * one]
        if len(args) == 2:
            gref.append(np.sum(-0.5 * s2 * u / mu))
            gtol.append(np.sum(e / mu * (1 + ucap)))
        names = ['dx', 'dmu']

    if len(grads) != len(gref):
        res.fail(f"{fn}:grad-arity", f"{len(grads)} gradients for {len(gref)} arguments")
        return
    for nm, g, r, tl in zip(names, grads, gref, gtol):
        _cmp(res, f"{fn}:grad-{nm}", g, r, tl)


# ---------------------------------------------------------------------------------------------
# check
# ---------------------------------------------------------------------------------------------

def check(case):
    res = Result()
    fn = case['fn']
    if fn == 'abs':
        check_abs(case, res)
    elif fn == 'norm':
        check_norm(case, res)
    elif fn == 'arctan2':
        check_arctan2(case, res)
    else:
        check_jax(case, res)
    return res


# ---------------------------------------------------------------------------------------------
# deterministic enumeration
# ---------------------------------------------------------------------------------------------

def enum_cases():
    xs = [-2.0, -0.0, 0.0, 3.0]
    ds = [-1.0, 0.0, 1.0]
    for h in (1e-30,):
        for n in (1, 2, 3):
            for xv in itertools.product(xs, repeat=n):
                yield {'fn': 'abs', 'form': 'array', 'shape': [n], 'x': list(xv), 'd': None, 'h': h}
                for dv in itertools.product(ds, repeat=n):
                    yield {'fn': 'abs', 'form': 'array', 'shape': [n], 'x': list(xv), 'd': list(dv), 'h': h}
        for xv in xs:
            yield {'fn': 'abs', 'form': 'array', 'shape': [], 'x': [xv], 'd': [1.0], 'h': h}
            for form in ('pyfloat', 'npfloat', 'pyint'):
                yield {'fn': 'abs', 'form': form, 'x': [xv], 'd': None, 'h': h}
            for form in ('pycomplex', 'npcomplex'):
                for dv in ds:
                    yield {'fn': 'abs', 'form': form, 'x': [xv], 'd': [dv], 'h': h}
        vals = [-1.5, 0.0, 2.0]
        for yv, xv in itertools.product(vals, repeat=2):
            for dy, dx in itertools.product([None] + ds, repeat=2):
                for arr in (False, True):
                    c = {'fn': 'arctan2', 'h': h, 'y': [yv], 'x': [xv],
                         'dy': None if dy is None else [dy], 'dx': None if dx is None else [dx]}
                    if arr:
                        c.update(yform='array', xform='array', yshape=[1], xshape=[1])
                    else:
                        c.update(yform='pyfloat' if dy is None else 'pycomplex',
                                 xform='pyfloat' if dx is None else 'pycomplex')
                    yield c
        for xv in itertools.product([-2.0, 0.0, 1.0], repeat=4):
            for axis in (None, 0, 1, -1):
                for dv in (None, [1.0, 0.0, -1.0, 2.0]):
                    yield {'fn': 'norm', 'form': 'array', 'shape': [2, 2], 'x': list(xv), 'd': dv, 'axis': axis, 'h': h}


# ---------------------------------------------------------------------------------------------
# Hypothesis strategies
# ---------------------------------------------------------------------------------------------

def _elements(st, maxexp):
    nice = st.floats(-1e3, 1e3, allow_nan=False, width=64)
    special = st.sampled_from([0.0, -0.0, 1.0, -1.0, 0.5, -3.0])

    @st.composite
    def wide(draw):
        e = draw(st.floats(-maxexp, maxexp, allow_nan=False))
        m = draw(st.floats(1.0, 10.0, allow_nan=False))
        sgn = draw(st.sampled_from([1.0, -1.0]))
        return sgn * m * 10.0 ** e
    return st.one_of(special, nice, nice, wide())


def _direction(st):
    return st.one_of(st.sampled_from([0.0, 1.0, -1.0]),
                     st.floats(1e-3, 1e3, allow_nan=False),
                     st.floats(-1e3, -1e-3, allow_nan=False))


def _safe(v):
    """keep magnitudes inside the stated range of the naive formulas"""
    return 0.0 if (v != 0 and not (1e-100 <= abs(v) <= 1e100)) else v


def cs_strategy():
    from hypothesis import strategies as st

    @st.composite
    def values(draw, n, elem):
        out = []
        for _ in range(n):
            if out and draw(st.integers(0, 5)) == 0:
                v = draw(st.sampled_from(out))
                if draw(st.booleans()):
                    v = -v
            else:
                v = draw(elem)
            out.append(v)
        return out

    shape_st = st.one_of(st.lists(st.integers(1, 4), min_size=1, max_size=1),
                         st.lists(st.integers(1, 6), min_size=1, max_size=1),
                         st.lists(st.integers(1, 3), min_size=2, max_size=2),
                         st.lists(st.integers(0, 3), min_size=1, max_size=3))

    @st.composite
    def case(draw):
        fn = draw(st.sampled_from(['abs', 'norm', 'norm', 'arctan2', 'arctan2']))
        h = draw(st.sampled_from([1e-30, 1e-30, 1e-40]))
        dirs = _direction(st)
        if fn == 'abs':
            form = draw(st.sampled_from(['array', 'array', 'array', 'array', 'intarray', 'pyfloat', 'npfloat', 'pyint',
                                         'pycomplex', 'npcomplex']))
            if form in ('array', 'intarray'):
                shape = draw(shape_st)
                n = int(np.prod(shape))
            else:
                shape, n = [], 1
            if form in ('intarray', 'pyint'):
                x = [float(draw(st.integers(-1000, 1000))) for _ in range(n)]
            else:
                x = draw(values(n, _elements(st, 300)))
            d = None
            if form in ('pycomplex', 'npcomplex') or (form == 'array' and draw(st.integers(0, 3)) > 0):
                d = draw(values(n, dirs))
            return {'fn': 'abs', 'form': form, 'shape': shape, 'x': x, 'd': d, 'h': h}
        if fn == 'norm':
            form = draw(st.sampled_from(['array', 'array', 'array', 'array', 'intarray']))
            shape = draw(shape_st)
            n = int(np.prod(shape))
            axis = draw(st.one_of(st.none(), st.integers(-len(shape), len(shape) - 1)))
            if form == 'intarray':
                x = [float(draw(st.integers(-1000, 1000))) for _ in range(n)]
                d = None
            else:
                x = [_safe(v) for v in draw(values(n, _elements(st, 100)))]
                d = draw(values(n, dirs)) if draw(st.integers(0, 3)) > 0 else None
            c = {'fn': 'norm', 'form': form, 'shape': shape, 'x': x, 'd': d, 'axis': axis, 'h': h}
            if axis is None and draw(st.booleans()):
                c['axis_omitted'] = True
            return c
        # arctan2
        layout = draw(st.sampled_from(['ss', 'aa', 'aa', 'aa', 'as', 'sa', 'bc']))
        shape = draw(shape_st)
        if layout == 'ss':
            ys, xs = None, None
        elif layout == 'aa':
            ys, xs = shape, shape
        elif layout == 'as':
            ys, xs = shape, None
        elif layout == 'sa':
            ys, xs = None, shape
        else:
            k = draw(st.integers(1, 3))
            ys, xs = [k, 1], [draw(st.integers(1, 3))]
        pert = draw(st.sampled_from(['none', 'y', 'x', 'both', 'both', 'both']))
        c = {'fn': 'arctan2', 'h': h}
        for nm, shp, p in (('y', ys, pert in ('y', 'both')), ('x', xs, pert in ('x', 'both'))):
            n = 1 if shp is None else int(np.prod(shp))
            c[nm] = [_safe(v) for v in draw(values(n, _elements(st, 100)))]
            c['d' + nm] = draw(values(n, dirs)) if p else None
            if shp is None:
                c[nm + 'form'] = 'pycomplex' if p else draw(st.sampled_from(['pyfloat', 'npfloat']))
            else:
                c[nm + 'form'] = 'array'
                c[nm + 'shape'] = shp
        return c

    return case()


def jax_strategy():
    from hypothesis import strategies as st

    ustrat = st.one_of(st.sampled_from([0.0, 0.0, 1.0, -1.0]),
                       st.floats(-4, 4, allow_nan=False),
                       st.floats(-4, 4, allow_nan=False),
                       st.floats(-1e-6, 1e-6, allow_nan=False),
                       st.floats(-45, 45, allow_nan=False),
                       st.floats(-1e4, 1e4, allow_nan=False))

    @st.composite
    def case(draw):
        fn = draw(st.sampled_from(['act_tanh', 'smooth_max', 'smooth_min', 'smooth_abs', 'smooth_round']))
        shape = draw(st.sampled_from(['s', 'v', 'v', 'm']))
        n = {'s': 1, 'v': 5, 'm': 6}[shape]
        mu = draw(st.one_of(st.none(), st.sampled_from([0.01, 0.1, 1.0]),
                            st.floats(-3, 1, allow_nan=False).map(lambda e: 10.0 ** e),
                            st.floats(-3, 1, allow_nan=False).map(lambda e: 10.0 ** e)))
        m = DEFAULTS['mu'] if mu is None else mu
        c = {'fn': fn, 'shape': shape, 'mu': mu}
        centre = st.one_of(st.sampled_from([0.0, 1.0, -2.5]), st.floats(-100, 100, allow_nan=False))
        if fn == 'act_tanh':
            c['full'] = draw(st.integers(0, 3)) > 0
            if c['full'] and mu is None:
                c['mu'] = mu = m = 10.0 ** draw(st.floats(-3, 1, allow_nan=False))
            z = draw(centre) if c['full'] else 0.0
            c['z'] = z
            c['a'] = draw(st.one_of(st.sampled_from([-1.0, 0.0, 1.0]), st.floats(-50, 50, allow_nan=False)))
            c['b'] = draw(st.one_of(st.sampled_from([1.0, 0.0, -1.0]), st.floats(-50, 50, allow_nan=False)))
            c['x'] = [z + m * draw(ustrat) for _ in range(n)]
        elif fn in ('smooth_max', 'smooth_min'):
            ys = [draw(centre) for _ in range(n)]
            c['y'] = ys
            c['x'] = [y + m * draw(ustrat) for y in ys]
        elif fn == 'smooth_abs':
            c['x'] = [m * draw(ustrat) for _ in range(n)]
        else:
            xs = []
            for _ in range(n):
                k = float(draw(st.integers(-6, 6)))
                kind = draw(st.integers(0, 3))
                if kind == 0:
                    f = draw(st.sampled_from([0.0, 0.5, 0.25, 0.75]))
                elif kind == 1:
                    f = min(max(0.5 + m * draw(st.floats(-4, 4, allow_nan=False)), 0.0), 0.999999)
                else:
                    f = draw(st.floats(0, 0.999999, allow_nan=False))
                xs.append(k + f)
            c['x'] = xs
        return c

    return case()


# ---------------------------------------------------------------------------------------------
# work units
# ---------------------------------------------------------------------------------------------

def units(tier, seed):
    us = [{'kind': 'enum'}]
    ncs, percs = (11, 3000) if tier == 'quick' else (24, 42000)
    njx, perjx = (4, 1200) if tier == 'quick' else (8, 7500)
    for i in range(ncs):
        us.append({'kind': 'cs', 'n': percs, 'seed': core.shard_seed(seed, ID, i)})
    for i in range(njx):
        us.append({'kind': 'jax', 'n': perjx, 'seed': core.shard_seed(seed, ID, 100 + i)})
    return us


def run_unit(unit, ctx):
    k = unit['kind']
    shrink = unit.get('tier') == 'thorough'
    if k == 'enum':
        core.run_cases(ctx, enum_cases(), check)
    elif k == 'cs':
        core.run_hypothesis(ctx, cs_strategy(), check, unit['n'], unit['seed'], shrink=shrink)
    elif k == 'jax':
        core.run_hypothesis(ctx, jax_strategy(), check, unit['n'], unit['seed'], shrink=shrink)
