"""C14  ExecComp evaluates its expressions and their exact partials.

Domain : generated expression ASTs (vfw/c14_expr.py) over ExecComp's function table, rendered as ExecComp text, inside
         one ExecComp fed by an IndepVarComp: several expressions per component, shared inputs, constants, shapes
         (1,)/(n,)/(m,n), has_diag_partials, do_coloring, force_alloc_complex, per-variable and component-level
         shape / shape_by_conn / copy_shape / units, manual declare_partials(method='cs') (+ declare_coloring).
Oracle : outputs == direct NumPy interpretation of the same AST; total derivatives of the isolated component (fwd and rev)
         == own forward-mode AST differentiator times the unit factor of the connection.
"""
import numpy as np

from vfw import core
from vfw.core import Result
from vfw import c14_expr as X

ID = 'C14'
LEVEL = 'exploration'
TECHNIQUE = ('Hypothesis-generated well-defined expression ASTs rendered as ExecComp text; NumPy interpreter of the AST as '
             'value oracle; own symbolic forward-mode differentiator over the AST as derivative oracle')
RULE = ("case = one ExecComp with 1-3 expressions over 1-5 inputs (shapes (), (1,), (n,), (m,n); shared between expressions; "
        "optionally constants), each expression an AST of depth 1-5 over ExecComp's documented function table "
        "(elementwise functions incl. aliases, arctan2/maximum/minimum/fmax/fmin/power, integer and real powers, "
        "sum/prod/max/min, dot/inner/outer/matmul/kron/tensordot, indexing/slicing, diff, ones/zeros/linspace/arange, "
        "pi/e) with broadcasting, x options has_diag_partials (elementwise family only), do_coloring, "
        "force_alloc_complex, manual declare_partials(cs) (+declare_coloring), shape/shape_by_conn/copy_shape and units "
        "given per variable or for the whole component, IndepVarComp sources in other units. Evaluated at two input "
        "points (the second a small move away from the first, the dynamic coloring is computed at the first) in fwd and "
        "rev mode. Non-trivial = some expression has AST depth >= 3, >= 2 inputs, an array-valued output. "
        "Distinct = distinct canonical JSON.")
ASSUMPTIONS = [
    "NumPy's own functions applied node by node to the AST are the specification of the outputs (tolerance 1e-13 * "
    "(|ref| + largest intermediate magnitude): ExecComp evaluates in complex arithmetic, whose elementary functions differ "
    "from the real ones by a few ulp)",
    "derivative tolerance 1e-9 * (|ref_ij| + T_i) where T_i is the largest sum over chain-rule paths of |term| in the row "
    "(absolute-mode differentiation), i.e. 1e-9 relative to the size of the terms any differentiation accumulates",
    "expressions are well defined by construction: partial functions see arguments kept inside their open domain, abs / "
    "maximum / minimum / fmax / fmin / max / min / raw division / negative powers only where the argument is > 0.1 (0.5) "
    "away from the kink / pole at both evaluation points with the same branch; values of every node are bounded by 50",
    "has_diag_partials=True is only combined with elementwise expressions over arrays of one common size (documented "
    "precondition); a separate small family probes the array -> size-1 output case that the option text does not exclude",
    "an output of one expression is not used by a later expression (ExecComp rejects that at setup); keyword arguments in "
    "expressions (axis=...) are not supported by ExecComp's parser and are excluded",
    "dynamic coloring perturbs inputs with numpy's global RNG: seeded from the case",
]
MIN_CLASS_FRACTION = {'judged': 0.85, 'colored': 0.08, 'has_diag': 0.08, 'units': 0.1, 'shape_by_conn': 0.05,
                      'kink_fn': 0.1, 'linalg': 0.08, 'shape0d': 0.02, 'manual_cs': 0.05}
UNIT_TIMEOUT = {'quick': 1500, 'thorough': 7200}

NAMES = ['a', 'b', 'c', 'd', 'g', 'h', 'k', 'm', 'p', 'q', 'r', 's', 't', 'u', 'v', 'w', 'x', 'y', 'z', 'x1', 'y_2',
         'Ab', 'e1', 'zz']
NICE = [0.0, 0.5, -0.75, 1.0, 2.5, -3.0, 1.75, 0.3, -1.2, 2.0, 0.9, -0.4, 1.5, -2.25, 0.125]
# (component units, source units, factor: component value = source value * factor)
UNIT_PAIRS = [('m', 'm', 1.0), ('m', 'cm', 0.01), ('cm', 'm', 100.0), ('m', 'km', 1000.0), ('s', 'ms', 0.001),
              ('kg', 'g', 0.001), ('N', 'kN', 1000.0)]
KINK_FNS = {'abs', 'maximum', 'minimum', 'fmax', 'fmin', 'max', 'min', '/raw', 'arctan2-raw'}
LINALG_FNS = {'dot', 'inner', 'outer', 'matmul', 'kron', 'tensordot'}


# ---------------------------------------------------------------------------------------------------------------
# known findings (predicates over the input)
# ---------------------------------------------------------------------------------------------------------------

def known_diag_array_to_scalar(case):
    """has_diag_partials=True and an output of size 1 depends on an (non-constant) array input of size > 1."""
    if not case['opts'].get('has_diag_partials'):
        return False
    big = {i['name'] for i in case['ins'] if int(np.prod(i['shape'])) > 1 and not i.get('const')}
    for o in case['outs']:
        if int(np.prod(o['shape'])) == 1 and big.intersection(X.variables(o['ast'])):
            return True
    return False


def known_comp_sbc_with_var_meta(case):
    """Component-level shape_by_conn=True together with a per-variable metadata dict (here: units) for some variable."""
    if not case['opts'].get('shape_by_conn') or case['opts'].get('units') is not None:
        return False
    return any(v.get('units') is not None for v in case['ins'] + case['outs'] if not v.get('const'))


def known_0d_output_manual(case):
    """A 0-d (shape ()) output together with manually declared partials (compute then runs through _IODict)."""
    return bool(case.get('manual')) and any(len(o['shape']) == 0 for o in case['outs'])


# ---------------------------------------------------------------------------------------------------------------
# model construction
# ---------------------------------------------------------------------------------------------------------------

def _env(case, point):
    """Component-side input values at evaluation point 0 / 1."""
    env = {}
    for i in case['ins']:
        key = 'ivc_val' if point == 0 else 'ivc_val2'
        src = np.array(i[key] if not i.get('const') else i['ivc_val'], dtype=float).reshape(i['shape'])
        env[i['name']] = src * i.get('factor', 1.0) if not i.get('const') else src
    return env


def build(case, mode):
    import openmdao.api as om
    p = om.Problem(reports=False)
    model = p.model
    ivc = model.add_subsystem('iv', om.IndepVarComp())
    kwargs = {}
    for i in case['ins']:
        shape = tuple(i['shape'])
        arr = np.array(i['ivc_val'], dtype=float).reshape(shape)
        if i.get('const'):
            kwargs[i['name']] = {'val': arr, 'constant': True}
            continue
        if shape == ():
            ivc.add_output(i['name'], val=float(arr), shape=(), units=i.get('ivc_units'))   # a 0-d VALUE would mean shape (1,)
        else:
            ivc.add_output(i['name'], val=arr, units=i.get('ivc_units'))
        decl = i['decl']
        meta = {}
        if decl == 'val':
            meta['val'] = np.ones(shape) * 0.5
        elif decl == 'shape':
            meta['shape'] = shape if len(shape) != 1 or i.get('tuple_shape') else shape[0]
        elif decl == 'sbc':
            meta['shape_by_conn'] = True
        if i.get('units') is not None and case['opts'].get('units') is None:
            meta['units'] = i['units']
        if decl == 'val' and len(meta) == 1 and i.get('bare'):
            kwargs[i['name']] = meta['val']
        elif meta:
            kwargs[i['name']] = meta
    sinks = []
    for o in case['outs']:
        shape = tuple(o['shape'])
        decl = o['decl']
        meta = {}
        if decl == 'val':
            meta['val'] = np.zeros(shape)
        elif decl == 'shape':
            meta['shape'] = shape
        elif decl.startswith('copy:'):
            meta['copy_shape'] = decl[5:]
        elif decl == 'sbc':
            meta['shape_by_conn'] = True
        if decl == 'sbc' or case['opts'].get('shape_by_conn'):
            sinks.append(o)
        if o.get('units') is not None and case['opts'].get('units') is None:
            meta['units'] = o['units']
        if decl == 'val' and len(meta) == 1 and o.get('bare'):
            kwargs[o['name']] = meta['val']
        elif meta:
            kwargs[o['name']] = meta
    eq = ' = ' if case.get('spaces') else '='
    exprs = [o['name'] + eq + X.render(o['ast'], 'exec') for o in case['outs']]
    opts = {}
    for k, v in case['opts'].items():
        if v is None:
            continue
        if k == 'shape':
            v = tuple(v)
        opts[k] = v
    comp = om.ExecComp(exprs if (len(exprs) > 1 or case.get('as_list')) else exprs[0], **kwargs, **opts)
    model.add_subsystem('c', comp)
    for i in case['ins']:
        if not i.get('const'):
            model.connect('iv.' + i['name'], 'c.' + i['name'])
    for k, o in enumerate(sinks):
        shape = tuple(o['shape'])
        u = case['opts'].get('units') or o.get('units')
        model.add_subsystem(f"sink{k}", om.ExecComp('s=2.0*t', t={'shape': shape, 'units': u}, s={'shape': shape}))
        model.connect('c.' + o['name'], f"sink{k}.t")
    if case.get('manual'):
        comp.declare_partials('*', '*', method='cs')
        if case.get('manual_coloring'):
            comp.declare_coloring(wrt='*', method='cs', show_summary=False)
    p.setup(force_alloc_complex=bool(case.get('fac')), mode=mode)
    return p


def _tol_value(ref, M):
    return 1e-13 * (np.abs(ref) + M)


def check(case):
    res = Result()
    ins = [i for i in case['ins'] if not i.get('const')]
    wrt = [i['name'] for i in ins]
    cls = [case['family']]
    if case['opts'].get('has_diag_partials'):
        cls.append('has_diag')
    if case.get('manual'):
        cls.append('manual_cs')
    if case.get('fac'):
        cls.append('force_alloc_complex')
    if any(i.get('const') for i in case['ins']):
        cls.append('constant')
    if any(i.get('factor', 1.0) != 1.0 for i in ins):
        cls.append('unit_factor')
    if case['opts'].get('units') or any(i.get('units') for i in case['ins']) or any(o.get('units') for o in case['outs']):
        cls.append('units')
    if case['opts'].get('shape_by_conn') or any(i['decl'] == 'sbc' for i in ins) or \
            any(o['decl'] == 'sbc' or o['decl'].startswith('copy:') for o in case['outs']):
        cls.append('shape_by_conn')
    if case['opts'].get('shape') is not None:
        cls.append('comp_shape')
    used = set()
    for o in case['outs']:
        used |= set(o.get('used', []))
    if used & KINK_FNS:
        cls.append('kink_fn')
    if used & LINALG_FNS:
        cls.append('linalg')
    if used & {'sum', 'prod', 'max', 'min'}:
        cls.append('reduction')
    if 'index' in used or 'diff' in used:
        cls.append('index_or_diff')
    if len(case['outs']) > 1:
        cls.append('multi_expr')
    shapes = [tuple(i['shape']) for i in case['ins']] + [tuple(o['shape']) for o in case['outs']]
    if any(len(s) == 2 for s in shapes):
        cls.append('matrix')
    if any(len(s) == 0 for s in shapes):
        cls.append('shape0d')
    f1 = known_diag_array_to_scalar(case)
    pre = 'F-C14-1|' if f1 else ''

    # ---- oracle -------------------------------------------------------------------------------------------------
    refs = []
    for point in (0, 1):
        env = _env(case, point)
        ref = {}
        for o in case['outs']:
            val, J = X.jac(o['ast'], env, wrt)
            _, T = X.jac(o['ast'], env, wrt, am=True)
            txt = np.asarray(X.eval_text(o['ast'], env), dtype=float)
            # (the two evaluations may differ in the last bit, e.g. x*x*x against x ** 3)
            if txt.shape != val.shape or not np.allclose(txt, val, rtol=1e-13, atol=1e-300, equal_nan=True):
                raise AssertionError(f"harness: AST interpreter and NumPy text rendering disagree: {X.render(o['ast'], 'np')}")
            if not np.all(np.isfinite(val)):
                raise AssertionError(f"harness: generated expression is not finite: {X.render(o['ast'])}")
            M = X.max_node_magnitude(o['ast'], env)
            Trow = np.zeros(val.size)
            for n in wrt:
                if T[n].size:
                    Trow = np.maximum(Trow, T[n].max(axis=1))
            ref[o['name']] = (val, J, Trow, M)
        refs.append(ref)

    # dynamic coloring determines the sparsity pattern numerically at the FIRST linearization point (inputs perturbed
    # by 1e-9 relative, entries below 1e-25 of the largest are structural zeros from then on -- documented behaviour of
    # dynamic coloring).  The second point is judged only if every entry that is nonzero there is detectable at the
    # first point in that sense (emulated with the reference Jacobian at a 1e-9 perturbed point, threshold 1e-22).
    uses_sparsity = (case['opts'].get('do_coloring', True) and not case['opts'].get('has_diag_partials')
                     and not case.get('manual')) or bool(case.get('manual_coloring'))
    judge_second = True
    weak_masks = {}     # (output, input) -> entries the sparsity pass cannot tell from structural zeros
    # ExecComp's own coloring detects the sparsity with exact complex steps; a manually declared coloring goes through the
    # framework's approximation code, whose sparsity pass uses forward finite differences (noise ~1e-10 relative)
    thresh = 1e-6 if case.get('manual_coloring') else 1e-22
    if uses_sparsity:
        env0 = _env(case, 0)
        envp = {}
        for k, (n, v) in enumerate(sorted(env0.items())):
            if n in wrt:
                s_ = 1e-9 * (0.5 + 0.5 * np.abs(np.sin(np.arange(v.size) + 1.0 + k))).reshape(v.shape)
                s_ = s_ * np.where(np.arange(v.size).reshape(v.shape) % 2 == 0, 1.0, -1.0)
                envp[n] = np.where(v == 0.0, s_, v * (1.0 + s_))
            else:
                envp[n] = v
        Jp = {o['name']: X.jac(o['ast'], envp, wrt)[1] for o in case['outs']}
        gmax = max([float(np.max(np.abs(J[n]), initial=0.0)) for J in Jp.values() for n in wrt] + [0.0])
        # ExecComp samples the sparsity with complex steps of the NumPy functions themselves; some of them lose tiny
        # VALUES in complex arithmetic (np.log1p(1e-18+0j) == 0j), so an entry that is 1e-18 in exact arithmetic can be
        # sampled as exactly 0.  The emulation therefore also complex-steps the NumPy evaluation at the perturbed point.
        Jc = {}
        try:
            for o in case['outs']:
                Jc[o['name']] = {}
                osize = int(np.prod(o['shape'])) if o['shape'] else 1
                for n in wrt:
                    v = np.asarray(envp[n], dtype=float)
                    cols = []
                    for e in range(v.size):
                        envc = {k: np.asarray(val, dtype=complex) for k, val in envp.items()}
                        flat = envc[n].reshape(-1).copy()
                        flat[e] += 1e-40j
                        envc[n] = flat.reshape(v.shape)
                        val = np.asarray(X.ev(o['ast'], envc))
                        cols.append(np.broadcast_to(np.imag(val) / 1e-40, o['shape']).reshape(osize))
                    Jc[o['name']][n] = np.array(cols).T.reshape(osize, v.size)
        except Exception:
            Jc = None
        for o in case['outs']:
            J1 = refs[1][o['name']][1]
            for n in wrt:
                weak = np.abs(Jp[o['name']][n]) <= thresh * gmax
                if Jc is not None and Jc[o['name']][n].shape == np.shape(J1[n]):
                    weak = weak | (np.abs(Jc[o['name']][n]) <= thresh * gmax)
                weak_masks[o['name'], n] = weak
                if np.any(weak & (np.abs(J1[n]) > 0.0)):
                    judge_second = False
        if not judge_second:
            cls.append('second_point_sparsity_not_detectable')

    # ---- OpenMDAO -----------------------------------------------------------------------------------------------
    colored = False
    for mode in ('fwd', 'rev'):
        np.random.seed(case.get('npseed', 0))
        try:
            p = build(case, mode)
            for point in (0, 1):
                if point == 1:
                    for i in ins:
                        p.set_val('iv.' + i['name'], np.array(i['ivc_val2'], dtype=float).reshape(i['shape']))
                p.run_model()
                outs = {o['name']: np.array(p.get_val('c.' + o['name'])) for o in case['outs']}
                tot = p.compute_totals(of=['c.' + o['name'] for o in case['outs']], wrt=['iv.' + n for n in wrt])
                if p.model.c._coloring_info.coloring is not None:
                    colored = True
                _judge(case, res, pre, mode, point, refs[point], outs, tot, ins, partials=(point == 0 or judge_second), weak=weak_masks)
        except Exception as e:
            sig = core.repo_frame_signature(e, 'execcomp')
            if sig is None:
                raise
            if known_0d_output_manual(case) and "'float' object has no attribute 'shape'" in str(e):
                sig = 'F-C14-3|compute-raises:0d-output-with-manual-partials'
            if known_comp_sbc_with_var_meta(case) and isinstance(e, RuntimeError) and 'incompatible with shape (1,)' in str(e):
                sig = 'F-C14-2|setup-rejects:comp-shape_by_conn-dropped-for-var-with-metadata'
            res.fail(pre + sig, f"{mode}: {type(e).__name__}: {e}")
            res.classes = cls + ['raised']
            return res
    if colored:
        cls.append('colored')
    nt = False
    for o in case['outs']:
        if X.depth(o['ast']) >= 3 and len(set(X.variables(o['ast'])) & set(wrt)) >= 2 and int(np.prod(o['shape'])) > 1:
            nt = True
    res.nontrivial = nt
    res.classes = cls + ['judged']
    return res


def _judge(case, res, pre, mode, point, ref, outs, tot, ins, partials=True, weak=None):
    for o in case['outs']:
        name = o['name']
        val, J, Trow, M = ref[name]
        got = outs[name]
        want_shape = tuple(o['shape'])
        if tuple(got.shape) != want_shape:
            res.fail(pre + 'output-shape', f"{name}: shape {got.shape} expected {want_shape}")
            continue
        refv = np.broadcast_to(val, want_shape) if val.shape != want_shape else val
        bad = np.abs(got - refv) > _tol_value(refv, M)
        if np.any(bad) or not np.all(np.isfinite(got)):
            k = np.argwhere(bad | ~np.isfinite(got))[0]
            res.fail(pre + 'output-value', f"{mode} point {point}: {name}{tuple(k)} = {got[tuple(k)]!r} expected "
                     f"{refv[tuple(k)]!r} for {X.render(o['ast'])}")
        for i in (ins if partials else []):
            key = ('c.' + name, 'iv.' + i['name'])
            g = np.asarray(tot[key], dtype=float)
            r = J[i['name']] * i.get('factor', 1.0)
            if g.shape != r.shape:
                res.fail(pre + 'partial-shape', f"{key}: shape {g.shape} expected {r.shape}")
                continue
            tol = 1e-9 * (np.abs(r) + Trow[:, None] * abs(i.get('factor', 1.0))) + 1e-15
            bad = ~(np.abs(g - r) <= tol)
            wk = (weak or {}).get((name, i['name']))
            if wk is not None and np.shape(wk) == g.shape:
                # an entry below the detection threshold of the sparsity pass may be reported as a structural zero
                bad = bad & ~(wk & (g == 0.0))
            if np.any(bad):
                a, b = np.argwhere(bad)[0]
                _verify_oracle(case, o, i, point, J)
                kind = 'colored' if case['opts'].get('do_coloring', True) and not case.get('manual') else 'plain'
                if case['opts'].get('has_diag_partials'):
                    kind = 'diag'
                if case.get('manual'):
                    kind = 'manual-cs' + ('-colored' if case.get('manual_coloring') else '')
                res.fail(pre + f"partial-value:{kind}", f"{mode} point {point}: d{name}/d{i['name']}[{a},{b}] = {g[a, b]!r} "
                         f"expected {r[a, b]!r} (tol {tol[a, b]:.2e}) for {X.render(o['ast'])}")


def _verify_oracle(case, o, i, point, J):
    """Before a derivative violation is reported: the AST differentiator must agree with central differences of the
    NumPy interpreter (otherwise this is a harness defect, exit 2)."""
    env = _env(case, point)
    x0 = env[i['name']]
    h = 1e-6
    fd = np.zeros_like(J[i['name']])
    for k in range(x0.size):
        xp = x0.copy().ravel()
        xm = x0.copy().ravel()
        xp[k] += h
        xm[k] -= h
        fp = np.asarray(X.ev(o['ast'], dict(env, **{i['name']: xp.reshape(x0.shape)})), dtype=float).ravel()
        fm = np.asarray(X.ev(o['ast'], dict(env, **{i['name']: xm.reshape(x0.shape)})), dtype=float).ravel()
        fd[:, k] = (fp - fm) / (2 * h)
    err = np.max(np.abs(fd - J[i['name']]) / (1.0 + np.abs(fd)), initial=0.0)
    if err > 1e-4:
        raise AssertionError(f"harness: AST differentiator disagrees with finite differences ({err:.2e}) on {X.render(o['ast'])}")


# ---------------------------------------------------------------------------------------------------------------
# generator
# ---------------------------------------------------------------------------------------------------------------

def strategy(tier):
    from hypothesis import strategies as st

    @st.composite
    def case(draw):
        def pick(seq):
            seq = list(seq)
            return seq[draw(st.integers(0, len(seq) - 1))]

        family = pick(['general'] * 6 + ['elementwise'] * 5 + ['diag_scalar_out'])
        names = list(draw(st.permutations(NAMES)))
        opts = {}
        comp_units = None
        if draw(st.integers(0, 7)) == 0:
            comp_units = pick(['m', 's', 'kg'])
            opts['units'] = comp_units

        def draw_vals(shape):
            n = int(np.prod(shape))
            a = [pick(NICE) for _ in range(n)]
            b = [v + 0.01 * draw(st.integers(-2, 2)) for v in a]
            return a, b

        def mk_input(shape, allow_const=True, decls=('val', 'val', 'shape', 'sbc')):
            name = names.pop()
            a, b = draw_vals(shape)
            inp = {'name': name, 'shape': list(shape)}
            if allow_const and tuple(shape) != () and draw(st.integers(0, 7)) == 0:
                inp.update(const=True, ivc_val=a, decl='val')
                return inp
            factor, units, ivc_units = 1.0, None, None
            if comp_units is not None:
                pairs = [q for q in UNIT_PAIRS if q[0] == comp_units]
                units, ivc_units, factor = pick(pairs)
            elif draw(st.integers(0, 3)) == 0:
                units, ivc_units, factor = pick(UNIT_PAIRS)
            inp.update(units=units, ivc_units=ivc_units, factor=factor,
                       ivc_val=[v / factor for v in a], ivc_val2=[v / factor for v in b])
            d = list(decls)
            if tuple(shape) == (1,):
                d += ['default', 'default']
            if tuple(shape) == ():
                d = ['shape']               # a true 0-d variable can only be declared through shape=()
            inp['decl'] = pick(d)
            if inp['decl'] == 'val':
                inp['bare'] = draw(st.booleans())
            if inp['decl'] == 'shape':
                inp['tuple_shape'] = draw(st.booleans())
            return inp

        def envs_of(ins):
            e0, e1 = {}, {}
            for i in ins:
                sh = tuple(i['shape'])
                if i.get('const'):
                    e0[i['name']] = e1[i['name']] = np.array(i['ivc_val'], dtype=float).reshape(sh)
                else:
                    e0[i['name']] = np.array(i['ivc_val'], dtype=float).reshape(sh) * i['factor']
                    e1[i['name']] = np.array(i['ivc_val2'], dtype=float).reshape(sh) * i['factor']
            return [e0, e1]

        ins, outs = [], []
        if family == 'general':
            n = pick([2, 3, 4])
            m = pick([2, 3])
            pool = [(1,), (n,), (n,), (m, n), (n, m), (n + 1,), (m,), (m, m), ()]
            nin = pick([1, 2, 2, 3, 3, 4])
            for _ in range(nin):
                ins.append(mk_input(pick(pool), allow_const=len(ins) > 0))
            if all(i.get('const') for i in ins):
                ins[0] = mk_input(tuple(ins[0]['shape']), allow_const=False)
            envs = envs_of(ins)
            shapes = {i['name']: tuple(i['shape']) for i in ins}
            nout = pick([1, 1, 2, 2, 3])
            for _ in range(nout):
                tgt = pick([tuple(i['shape']) for i in ins] * 2 + [()])
                g = X.Gen(draw, shapes, envs)
                ast = g.expr(tgt, pick([1, 2, 2, 3, 3, 4]))
                live = [i['name'] for i in ins if not i.get('const')]
                if not set(X.variables(ast)) & set(live):
                    ast = ['b', '+', ast, ['r', 'sum', ['u', 'sin', ['v', live[0]]]]]
                    g.note('sum')
                oshape = tgt if tgt != () else (1,)
                out = {'name': names.pop(), 'ast': ast, 'shape': list(oshape), 'used': sorted(g.used)}
                if tgt == () and draw(st.integers(0, 2)) == 0:
                    out.update(shape=[], decl='shape')      # 0-d output
                outs.append(out)
            opts['do_coloring'] = pick([True, True, False])
        else:
            S = pick([(2,), (3,), (4,), (5,), (2, 2), (2, 3)])
            narr = pick([1, 2, 2, 3])
            nsc = pick([0, 0, 1, 2])
            for _ in range(narr):
                ins.append(mk_input(S, allow_const=len(ins) > 0))
            for _ in range(nsc):
                ins.append(mk_input((1,), allow_const=False))
            if all(i.get('const') for i in ins):
                ins[0] = mk_input(S, allow_const=False)
            envs = envs_of(ins)
            shapes = {i['name']: tuple(i['shape']) for i in ins}
            nout = pick([1, 2, 2, 3])
            live = [i['name'] for i in ins if not i.get('const')]
            live_arr = [i['name'] for i in ins if not i.get('const') and tuple(i['shape']) == S]
            for _ in range(nout):
                g = X.Gen(draw, shapes, envs, elementwise=True)
                ast = g.expr(S, pick([1, 2, 2, 3, 3, 4]))
                if not set(X.variables(ast)) & set(live):
                    ast = ['b', '*', ast, ['u', 'cos', ['v', (live_arr or live)[0]]]]
                outs.append({'name': names.pop(), 'ast': ast, 'shape': list(S), 'used': sorted(g.used)})
            sc_live = [i['name'] for i in ins if tuple(i['shape']) == (1,)]
            if sc_live and draw(st.booleans()):
                g = X.Gen(draw, {n_: (1,) for n_ in sc_live}, [{n_: e[n_] for n_ in sc_live} for e in envs], elementwise=True)
                ast = g.expr((1,), pick([1, 2, 3]))
                if not X.variables(ast):
                    ast = ['b', '*', ast, ['v', sc_live[0]]]
                outs.append({'name': names.pop(), 'ast': ast, 'shape': [1], 'used': sorted(g.used)})
            opts['has_diag_partials'] = pick([True, True, False]) if family == 'elementwise' else True
            opts['do_coloring'] = pick([True, True, False])
            if family == 'diag_scalar_out' and live_arr:
                v = ['v', live_arr[0]]
                ast = pick([['r', 'sum', v], ['r', 'sum', ['pw', v, 2]], ['l', 'dot', ['r', 'sum', v], ['c', 2.0]]])
                if len(S) == 1:
                    ast = pick([ast, ['l', 'dot', v, v]])
                outs.append({'name': names.pop(), 'ast': ast, 'shape': [1], 'used': ['sum']})

        # ExecComp rejects keyword arguments for variables that no expression mentions: keep only the inputs in use
        mentioned = set()
        for o in outs:
            mentioned |= set(X.variables(o['ast']))
        ins = [i for i in ins if i['name'] in mentioned]

        if family != 'general':
            # component-level shape / shape_by_conn
            only_arrays = all(tuple(i['shape']) == S for i in ins) and all(tuple(o['shape']) == S for o in outs)
            if only_arrays and draw(st.integers(0, 3)) == 0:
                if draw(st.booleans()) and not any(i.get('const') for i in ins):
                    opts['shape_by_conn'] = True
                    for v_ in ins + outs:
                        v_['decl'] = 'default'
                else:
                    opts['shape'] = list(S)
                    for v_ in ins:
                        if not v_.get('const'):
                            v_['decl'] = 'default'
                    for v_ in outs:
                        v_['decl'] = 'default'

        # output declarations
        for o in outs:
            if 'decl' in o:
                continue
            sh = tuple(o['shape'])
            d = ['val', 'val', 'shape']
            if sh == (1,):
                d += ['default', 'default']
            cands = [i['name'] for i in ins if not i.get('const') and tuple(i['shape']) == sh]
            if cands:
                d += ['copy']
            d += ['sbc'] if draw(st.integers(0, 5)) == 0 else []
            o['decl'] = pick(d)
            if o['decl'] == 'copy':
                o['decl'] = 'copy:' + pick(cands)
            if o['decl'] == 'val':
                o['bare'] = draw(st.booleans())
            if comp_units is None and draw(st.integers(0, 4)) == 0:
                o['units'] = pick(['m', 'km', 's', 'N'])
        c = {'family': family, 'ins': ins, 'outs': outs, 'opts': opts, 'fac': draw(st.booleans()),
             'spaces': draw(st.booleans()), 'as_list': draw(st.booleans()), 'npseed': draw(st.integers(0, 999))}
        if not opts.get('has_diag_partials') and draw(st.integers(0, 5)) == 0:
            c['manual'] = 'cs'
            c['manual_coloring'] = draw(st.booleans())
        return c
    return case()


def units(tier, seed):
    n = 4 if tier == 'quick' else 32
    per = 400 if tier == 'quick' else 1900
    return [{'kind': 'random', 'n': per, 'seed': core.shard_seed(seed, ID, i)} for i in range(n)]


def run_unit(unit, ctx):
    core.run_hypothesis(ctx, strategy(unit.get('tier')), check, unit['n'], unit['seed'], shrink=unit.get('tier') == 'thorough')
