"""C33  Vector arithmetic and scaling round-trips match NumPy.

Domain : small models (1-5 components in a random tree of groups, variables of shape (), (1,), (n,), (n,m),
         (n,m,k), promoted or not, connected or fed by the auto-IVC, ref/ref0/res_ref scalings (scalar or
         per-element, either sign) and unit conversions incl. offset units), force_alloc_complex on/off,
         fwd/rev, optional Newton solver (complex linear vectors).  After setup/final_setup a drawn list of
         operations is interpreted on the six root vectors and on the vectors of every sub-system.
Oracle : one flat NumPy array per root vector + {name: (start, stop, shape)} computed from the spec sizes
         (only the *order* of the names is read from Vector.keys()); every operation is mirrored with the
         NumPy expression on that array; scaling arrays are computed from ref/ref0/res_ref and an own unit
         table.  After every step the real root data must equal the mirrored array (exact for sets/copies,
         a few ulp of the operand magnitudes for arithmetic), every other root array must be untouched and
         every sub-system vector must be a view of its root slice.
"""
import numpy as np

from vfw import core
from vfw.core import Result

ID = 'C33'
LEVEL = 'exploration'
TECHNIQUE = ('Hypothesis-generated model layouts + operation sequences interpreted against a flat NumPy '
             'reference model of each root vector (stateful model-based testing)')
RULE = ("case = {model, ops}. model: 1-5 components (explicit/implicit) in a random tree of <=3 groups (depth <=2), "
        "0-3 inputs and 1-3 outputs each with shapes from (), (1,), (n,), (n,m), (n,m,k) (extent<=3), promotion through "
        "0..depth levels, inputs connected (at the common ancestor or the root) to an output of another component "
        "or left to the auto-IVC, units from the length/time/temperature families (offset units included), ref/ref0/"
        "res_ref scalar or per-element with either sign, force_alloc_complex, mode, optional Newton solver. ops: 4-24 "
        "operations on the nonlinear/linear input/output/residual vectors of the root or any sub-system: set_val (all/"
        "slice/int/index array), set_vec, += -= *= (scalar, array, Vector), iadd/isub/imul(val, idxs), add_scal_vec, "
        "dot, get_norm, vec[name] (relative and promoted names; write through the returned view), vec[name]=val, "
        "set_var(name, val, idxs, flat), get_val/_abs_get_val/_abs_set_val (absolute names), asarray(copy), "
        "get_slice/add_to_slice, set_vals, keys/items/values/ranges/len/contains queries, scale_to_norm/"
        "scale_to_phys round trips (fwd; rev on linear inputs), System._unscaled_context/_scaled_context_all with "
        "nested operations, complex-step mode on/off for a sub-tree.  Non-trivial = at least 3 executed operations of "
        "which one mutates a vector holding >= 2 variables.  Distinct = distinct canonical JSON of the case.")
ASSUMPTIONS = [
    "NumPy applied to a flat array is the specification of every arithmetic operation; np.dot/np.linalg.norm of the "
    "visible data (complex under complex step) is the specification of dot/get_norm",
    "the order of the variables inside a vector is not specified: it is read from Vector.keys(); sizes, shapes, offsets "
    "(cumulative sums) and contiguity of sub-system ranges come from the spec",
    "scaled value of an output = (phys - ref0)/(ref - ref0), of a residual = phys/res_ref (res_ref defaults to ref for "
    "ExplicitComponent, to 1 for ImplicitComponent), of an input = scaled value of its source pushed through the unit "
    "conversion (documented in add_output and in Group._compute_root_scale_factors); linear vectors use the slope only; "
    "in reverse mode a linear input is multiplied by unit_factor/(ref-ref0) (chain rule into the scaled d_outputs)",
    "scaling methods are called only where a real caller calls them: outputs/residuals through the System context "
    "managers or behind the same _has_output_scaling/_has_resid_scaling guard, inputs only on groups that own a scaled "
    "connection (Group._transfer); for a sub-group's linear input vector in fwd mode only the targets of its own "
    "connections are judged absolutely (the others only have to round-trip)",
    "when the vector is not under complex step only the real part is specified, except for set_val/set_vec whose "
    "code comment promises that the imaginary part is reset; the unjudged imaginary parts are re-read from _data",
    "operands are ones a caller may pass: complex values only to vectors under complex step, vector operands of the "
    "same size, in-range indices; anything else is skipped (class op_skipped), never judged",
    "Vector.get_val is called with the names its docstring documents (promoted or relative); _abs_get_val/_abs_set_val "
    "with absolute names",
    "unit factors come from an own table (agrees with openmdao.utils.units to the last bit for these units); a relative "
    "slack of 1e-13 is added wherever a unit factor enters an expected value",
]
BOUND = {'quick': '16 shards x 300 generated cases', 'thorough': '32 shards x 2500 generated cases'}
MIN_CLASS_FRACTION = {'scaling_op': 0.3, 'sub_vec_op': 0.3, 'cs_mode': 0.2, 'input_scaling_op': 0.15,
                      'rev_scaling_op': 0.05, 'named_write': 0.3}

EPS = float(np.finfo(float).eps)
REL_U = 1e-13

# own unit table:  base = (value + off) * fac
UNITS = {
    'm': ('L', 1.0, 0.0), 'cm': ('L', 0.01, 0.0), 'mm': ('L', 0.001, 0.0), 'km': ('L', 1000.0, 0.0),
    'ft': ('L', 0.3048, 0.0), 'inch': ('L', 0.0254, 0.0),
    's': ('T', 1.0, 0.0), 'min': ('T', 60.0, 0.0), 'h': ('T', 3600.0, 0.0), 'ms': ('T', 0.001, 0.0),
    'degK': ('K', 1.0, 0.0), 'degC': ('K', 1.0, 273.15), 'degF': ('K', 5.0 / 9.0, 459.67), 'degR': ('K', 5.0 / 9.0, 0.0),
}
FAMILIES = {}
for _u, (_f, _a, _b) in UNITS.items():
    FAMILIES.setdefault(_f, []).append(_u)


def unit_conv(u_src, u_tgt):
    """(factor, offset) with  tgt = (src + offset) * factor ; (1, 0) when no conversion applies."""
    if u_src is None or u_tgt is None or u_src == u_tgt:
        return 1.0, 0.0
    _, f1, o1 = UNITS[u_src]
    _, f2, o2 = UNITS[u_tgt]
    return f1 / f2, o1 - o2 * f2 / f1


KINDS = ('input', 'output', 'residual')
VNAMES = ('nonlinear', 'linear')


# ---------------------------------------------------------------------------------------------
# value encoding
# ---------------------------------------------------------------------------------------------

def dec_val(v):
    """{'re': x | [..], 'im': x | [..] (optional), 'shape': [...] (optional)} -> numpy scalar / array."""
    re = v['re']
    if isinstance(re, list):
        a = np.array(re, dtype=float)
        if 'im' in v:
            a = a + 1j * np.array(v['im'], dtype=float)
        if 'shape' in v:
            a = a.reshape(tuple(v['shape']))
        return a
    if 'im' in v:
        return complex(re, v['im'])
    return float(re)


def val_is_complex(v):
    return 'im' in v


def dec_idx(e):
    """index inside a 1-D array or an N-D variable."""
    if e is None:
        return Ellipsis          # "everything": also valid for the 0-d view of a shape-() variable
    if e == '...':
        return Ellipsis
    if 'i' in e:
        return int(e['i'])
    if 's' in e:
        return slice(*e['s'])
    if 'a' in e:
        return np.array(e['a'], dtype=int)
    if 't' in e:
        return tuple(dec_idx(x) for x in e['t'])
    raise ValueError(e)


# ---------------------------------------------------------------------------------------------
# spec helpers (independent of OpenMDAO)
# ---------------------------------------------------------------------------------------------

def shape_size(shape):
    n = 1
    for s in shape:
        n *= s
    return n


class Var(object):
    __slots__ = ('abs', 'name', 'comp', 'io', 'shape', 'size', 'units', 'val', 'ref', 'ref0', 'res_ref', 'prom',
                 'explicit', 'src')

    def rel(self, syspath):
        return self.abs[len(syspath) + 1:] if syspath else self.abs

    def prom_name(self, syspath):
        parts = self.comp.split('.')
        i = len(syspath.split('.')) if syspath else 0
        keep = max(i, len(parts) - self.prom)
        return '.'.join(parts[i:keep] + [self.name])


def flat_param(p, size, default):
    """scalar or nested list -> flat float array of the variable's size."""
    if p is None:
        p = default
    a = np.asarray(p, dtype=float)
    if a.ndim == 0:
        return np.full(size, float(a))
    return a.ravel().copy()


def read_spec(model):
    """Returns (systems, vars) ; systems = ordered list of dicts incl. the root (path '')."""
    systems = [{'path': '', 'kind': 'group'}] + list(model['systems'])
    vs = {}
    for s in model['systems']:
        if s['kind'] == 'group':
            continue
        for io, key in (('input', 'ins'), ('output', 'outs')):
            for d in s[key]:
                v = Var()
                v.comp = s['path']
                v.name = d['name']
                v.abs = s['path'] + '.' + d['name']
                v.io = io
                v.shape = tuple(d['shape'])
                v.size = shape_size(v.shape)
                v.units = d.get('units')
                v.val = flat_param(d.get('val'), v.size, 1.0)
                v.prom = int(d.get('prom', 0))
                v.explicit = s['kind'] == 'exp'
                v.src = None
                if io == 'output':
                    v.ref = flat_param(d.get('ref'), v.size, 1.0)
                    v.ref0 = flat_param(d.get('ref0'), v.size, 0.0)
                    rr = d.get('res_ref')
                    if rr is None:
                        v.res_ref = v.ref.copy() if v.explicit else np.ones(v.size)
                    else:
                        v.res_ref = flat_param(rr, v.size, 1.0)
                else:
                    v.ref = v.ref0 = v.res_ref = None
                vs[v.abs] = v
    for c in model['conns']:
        vs[c['tgt']].src = c['src']
    return systems, vs


def under(abs_name, syspath):
    return syspath == '' or abs_name.startswith(syspath + '.')


# ---------------------------------------------------------------------------------------------
# building the OpenMDAO problem from the spec
# ---------------------------------------------------------------------------------------------

_CLS = {}


def _classes():
    if _CLS:
        return _CLS
    import openmdao.api as om

    def _setup(self):
        for d in self._spec['ins']:
            kw = {'shape': tuple(d['shape'])}
            if d.get('val') is not None:
                kw['val'] = np.asarray(d['val'], dtype=float).reshape(tuple(d['shape'])) if isinstance(d['val'], list) \
                    else d['val']
            if d.get('units'):
                kw['units'] = d['units']
            self.add_input(d['name'], **kw)
        for d in self._spec['outs']:
            shape = tuple(d['shape'])
            kw = {'shape': shape}
            if d.get('val') is not None:
                kw['val'] = np.asarray(d['val'], dtype=float).reshape(shape) if isinstance(d['val'], list) else d['val']
            if d.get('units'):
                kw['units'] = d['units']
            for k in ('ref', 'ref0', 'res_ref'):
                if d.get(k) is not None:
                    kw[k] = np.asarray(d[k], dtype=float).reshape(shape) if isinstance(d[k], list) else float(d[k])
            self.add_output(d['name'], **kw)

    class ExpC(om.ExplicitComponent):
        def __init__(self, spec):
            super().__init__()
            self._spec = spec

        setup = _setup

        def compute(self, inputs, outputs):
            pass

    class ImpC(om.ImplicitComponent):
        def __init__(self, spec):
            super().__init__()
            self._spec = spec

        setup = _setup

        def apply_nonlinear(self, inputs, outputs, residuals):
            pass

    _CLS['exp'] = ExpC
    _CLS['imp'] = ImpC
    return _CLS


def build(model, vs):
    import openmdao.api as om
    cls = _classes()
    p = om.Problem(reports=False)
    objs = {'': p.model}
    for s in model['systems']:
        path = s['path']
        parent, _, name = path.rpartition('.')
        obj = om.Group() if s['kind'] == 'group' else cls[s['kind']](s)
        t = len(path.split('.'))
        pin, pout = [], []
        for v in vs.values():
            if under(v.abs, path):
                nparts = len(v.comp.split('.'))
                if v.prom >= nparts - t + 1:
                    (pin if v.io == 'input' else pout).append(v.name)
        kw = {}
        if pin:
            kw['promotes_inputs'] = pin
        if pout:
            kw['promotes_outputs'] = pout
        objs[parent].add_subsystem(name, obj, **kw)
        objs[path] = obj
    for c in model['conns']:
        at = c['at']
        objs[at].connect(vs[c['src']].prom_name(at), vs[c['tgt']].prom_name(at))
    if model.get('newton') is not None:
        g = objs[model['newton']]
        g.nonlinear_solver = om.NewtonSolver(solve_subsystems=False)
        g.linear_solver = om.DirectSolver()
    p.setup(force_alloc_complex=bool(model['fac']), mode=model['mode'])
    p.final_setup()
    return p, objs


# ---------------------------------------------------------------------------------------------
# the interpreter
# ---------------------------------------------------------------------------------------------

class Skip(Exception):
    pass


MUTATING = {'set_val', 'set_vec', 'iop', 'add_scal_vec', 'setitem', 'set_var', 'abs_set', 'add_to_slice',
            'set_vals_by_name', 'scale_rt', 'ctx'}


class Machine(object):
    def __init__(self, case, res):
        self.case = case
        self.res = res
        self.model = case['model']
        self.systems, self.vs = read_spec(self.model)
        self.syspaths = [s['path'] for s in self.systems]
        self.sysdict = {s['path']: s for s in self.systems}
        self.fac = bool(self.model['fac'])
        self.ln_complex = self.fac and self.model.get('newton') is not None
        self.classes = set()
        self.executed = 0
        self.mut_multi = 0
        self.failed = False

    # -- failure reporting ------------------------------------------------------------------
    def fail(self, sig, detail):
        self.failed = True
        if len(self.res.violations) < 6:
            self.res.fail(sig, detail)

    # -- setup ------------------------------------------------------------------------------
    def start(self):
        self.p, self.objs = build(self.model, self.vs)
        root = self.p.model
        # auto-IVC variables: shape/val/units of the (first) target input
        in2out = dict(root._conn_global_abs_in2out)
        for tgt, src in in2out.items():
            if src.startswith('_auto_ivc.') and src not in self.vs:
                t = self.vs[tgt]
                v = Var()
                v.abs, v.name, v.comp, v.io = src, src.split('.', 1)[1], '_auto_ivc', 'output'
                v.shape, v.size, v.units, v.val = t.shape, t.size, t.units, t.val.copy()
                v.ref, v.ref0, v.res_ref = np.ones(v.size), np.zeros(v.size), np.ones(v.size)
                v.prom, v.explicit, v.src = 0, True, None
                self.vs[src] = v
        for tgt, src in in2out.items():
            if self.vs[tgt].src is None:
                self.vs[tgt].src = src
            elif self.vs[tgt].src != src:
                self.fail('setup:connection-differs', f"{tgt}: spec source {self.vs[tgt].src}, openmdao {src}")
        self.rootvec = {(k, n): root._vectors[k][n] for k in KINDS for n in VNAMES}
        # layout: order from keys(), sizes from the spec
        self.order = {}
        self.rng = {}
        for k in KINDS:
            io = 'input' if k == 'input' else 'output'
            expected = sorted(a for a, v in self.vs.items() if v.io == io)
            for n in VNAMES:
                names = list(self.rootvec[(k, n)].keys())
                if sorted(names) != expected:
                    self.fail('layout:root-names', f"{k}/{n}: {sorted(names)} != {expected}")
                    raise Skip('layout')
                self.order[(k, n)] = names
                off = 0
                r = {}
                for a in names:
                    r[a] = (off, off + self.vs[a].size)
                    off += self.vs[a].size
                self.rng[(k, n)] = r
        # sub-system slices
        self.vsl = {}
        for sp in self.syspaths:
            for k in KINDS:
                for n in VNAMES:
                    names = [a for a in self.order[(k, n)] if under(a, sp)]
                    r = self.rng[(k, n)]
                    if names:
                        start, stop = r[names[0]][0], r[names[-1]][1]
                        if stop - start != sum(self.vs[a].size for a in names):
                            self.fail('layout:subsystem-not-contiguous', f"{sp} {k}/{n}: {names}")
                            raise Skip('layout')
                    else:
                        start = stop = 0
                    self.vsl[(sp, k, n)] = (slice(start, stop), names)
        # complex-step flags
        self.cs = {(sp, k, n): False for sp in self.syspaths for k in KINDS for n in VNAMES}
        # model arrays: initial state from the spec
        self.M = {}
        for k in KINDS:
            for n in VNAMES:
                cplx = self.fac if n == 'nonlinear' else self.ln_complex
                tot = sum(self.vs[a].size for a in self.order[(k, n)])
                arr = np.zeros(tot, dtype=complex if cplx else float)
                if n == 'nonlinear' and k in ('input', 'output'):
                    for a in self.order[(k, n)]:
                        s, e = self.rng[(k, n)][a]
                        arr[s:e] = self.vs[a].val
                self.M[(k, n)] = arr
        self._scal = {}
        for key in self.M:
            act = self.rootvec[key]._data
            if act.shape != self.M[key].shape or act.dtype != self.M[key].dtype:
                self.fail('layout:root-data', f"{key}: data shape/dtype {act.shape}/{act.dtype}, "
                          f"expected {self.M[key].shape}/{self.M[key].dtype}")
                raise Skip('layout')
            if not np.array_equal(act, self.M[key]):
                self.fail('init:initial-values', f"{key}: {act.tolist()} expected {self.M[key].tolist()}")
                self.M[key] = act.copy()
        self.sweep('start')

    # -- accessors ---------------------------------------------------------------------------
    def vec(self, sp, k, n):
        return self.objs[sp]._vectors[k][n]

    def is_complex(self, k, n):
        return self.M[(k, n)].dtype.kind == 'c'

    def visible(self, root_arr, sp, k, n):
        sl, _ = self.vsl[(sp, k, n)]
        a = root_arr[sl]
        if self.cs[(sp, k, n)]:
            return a
        return a.real if a.dtype.kind == 'c' else a

    def local_rng(self, sp, k, n, absname):
        sl, _ = self.vsl[(sp, k, n)]
        s, e = self.rng[(k, n)][absname]
        return s - sl.start, e - sl.start

    # -- scaling arrays from the spec ----------------------------------------------------------
    def scaling(self, k, n, mode='fwd'):
        """(a0, a1, relu) root arrays:  phys = a0 + a1 * norm  (a0 = 0 for linear vectors)."""
        key = (k, n, mode)
        if key in self._scal:
            return self._scal[key]
        names = self.order[(k, n)]
        tot = self.M[(k, n)].size
        a0 = np.zeros(tot)
        a1 = np.ones(tot)
        relu = np.zeros(tot)
        for a in names:
            s, e = self.rng[(k, n)][a]
            v = self.vs[a]
            if k == 'output':
                a1[s:e] = v.ref - v.ref0
                a0[s:e] = v.ref0
            elif k == 'residual':
                a1[s:e] = v.res_ref
            else:
                src = self.vs[v.src]
                fac, off = unit_conv(src.units, v.units)
                if fac != 1.0 or off != 0.0:
                    relu[s:e] = REL_U
                sa1 = src.ref - src.ref0
                if mode == 'rev':
                    a1[s:e] = sa1 / fac          # norm = phys * fac / sa1
                else:
                    a1[s:e] = sa1 * fac
                    a0[s:e] = (src.ref0 + off) * fac
        if n == 'linear':
            a0[:] = 0.0
        self._scal[key] = (a0, a1, relu)
        return self._scal[key]

    def owned_scaled_targets(self, sp):
        """inputs that are targets of a connection declared at group sp whose source is scaled / unit-converted."""
        out = []
        for c in self.model['conns']:
            if c['at'] != sp:
                continue
            src, tgt = self.vs[c['src']], self.vs[c['tgt']]
            fac, off = unit_conv(src.units, tgt.units)
            if fac != 1.0 or off != 0.0 or np.any(src.ref != 1.0) or np.any(src.ref0 != 0.0):
                out.append(c['tgt'])
        return out

    # -- comparisons --------------------------------------------------------------------------
    def compare(self, key, exp, tol, judge_imag, what, judge_mask=None):
        """compare the real root data of `key` with exp within tol, all other root arrays bitwise with M."""
        ok = True
        act = self.rootvec[key]._data.copy()
        with np.errstate(all='ignore'):
            er = np.abs(act.real - exp.real)
            bad = ~((er <= tol) | (act.real == exp.real) | (np.isnan(act.real) & np.isnan(exp.real)))
            if judge_imag and act.dtype.kind == 'c':
                ei = np.abs(act.imag - exp.imag)
                bad |= ~((ei <= tol) | (act.imag == exp.imag) | (np.isnan(act.imag) & np.isnan(exp.imag)))
        if judge_mask is not None:
            bad &= judge_mask
        if bad.any():
            ok = False
            i = int(np.argmax(bad))
            name = [a for a in self.order[key] if self.rng[key][a][0] <= i < self.rng[key][a][1]]
            self.fail(f"{what}:data-mismatch",
                      f"{key} element {i} ({name}): got {act[i]!r} expected {exp[i]!r} tol {tol[i]:.3g}; "
                      f"before {self.M[key][i]!r}; n_bad={int(bad.sum())}")
        for k2 in self.M:
            if k2 == key:
                continue
            a2 = self.rootvec[k2]._data
            if not np.array_equal(a2, self.M[k2], equal_nan=True):
                ok = False
                self.fail(f"{what}:other-vector-changed", f"op on {key} changed {k2}: {a2.tolist()} was {self.M[k2].tolist()}")
                self.M[k2] = a2.copy()
        self.M[key] = act
        self.check_views(key, what)
        return ok

    def check_views(self, key, what):
        """every system's vector of this family is a view of its root slice."""
        k, n = key
        root_data = self.rootvec[key]._data
        for sp in self.syspaths:
            v = self.vec(sp, k, n)
            arr = v.asarray()
            expv = self.visible(self.M[key], sp, k, n)
            if arr.dtype != expv.dtype or arr.shape != expv.shape or not np.array_equal(arr, expv, equal_nan=True):
                self.fail(f"{what}:view-differs-from-root-slice",
                          f"system {sp!r} {key}: asarray() {arr.tolist()} ({arr.dtype}), root slice {expv.tolist()} ({expv.dtype})")
            elif arr.size and not np.shares_memory(arr, root_data):
                self.fail(f"{what}:asarray-not-a-view", f"system {sp!r} {key}")

    def sweep(self, what):
        """named access of every variable of every vector agrees with the model."""
        for key in self.M:
            self.check_views(key, what)
        for sp in self.syspaths:
            for k in KINDS:
                for n in VNAMES:
                    self.query((sp, k, n), what)

    # -- read-only queries -----------------------------------------------------------------------
    def expected_var(self, vk, absname):
        sp, k, n = vk
        v = self.vs[absname]
        s, e = self.rng[(k, n)][absname]
        a = self.M[(k, n)][s:e]
        if not self.cs[vk] and a.dtype.kind == 'c':
            a = a.real
        return v, a

    def same_value(self, got, v, a, flat=False):
        """got must be the variable's value: python scalar for shape (), else array of the var shape (or flat)."""
        if v.shape == () and not flat:
            if isinstance(got, np.ndarray) and got.shape != ():
                return False
            g = complex(got) if a.dtype.kind == 'c' else got
            return bool(g == a[0]) or bool(np.isnan(a[0]) and np.isnan(g))
        if not isinstance(got, np.ndarray):
            return False
        shape = (v.size,) if flat else v.shape
        return got.shape == shape and got.dtype == a.dtype and np.array_equal(got.ravel(), a, equal_nan=True)

    def query(self, vk, what):
        sp, k, n = vk
        vec = self.vec(*vk)
        sl, names = self.vsl[vk]
        rel = [self.vs[a].rel(sp) for a in names]
        sig = f"{what}:query"
        if list(vec.keys()) != rel:
            self.fail(f"{sig}-keys", f"{vk}: {list(vec.keys())} expected {rel}")
            return
        if len(vec) != sl.stop - sl.start or vec.nvars() != len(names):
            self.fail(f"{sig}-len", f"{vk}: len {len(vec)} nvars {vec.nvars()} expected {sl.stop - sl.start}, {len(names)}")
        rngs = list(vec.ranges())
        exp_r = [(a,) + self.local_rng(sp, k, n, a) for a in names]
        if [tuple(r) for r in rngs] != exp_r:
            self.fail(f"{sig}-ranges", f"{vk}: {rngs} expected {exp_r}")
        items = list(vec.items())
        vals = list(vec.values())
        if [i[0] for i in items] != rel or len(vals) != len(names):
            self.fail(f"{sig}-items-names", f"{vk}: {[i[0] for i in items]} expected {rel}")
            return
        lv = vec._get_local_views()
        for a, r, (_, iv), vv in zip(names, rel, items, vals):
            v, ea = self.expected_var(vk, a)
            if not self.same_value(iv, v, ea) or not self.same_value(vv, v, ea):
                self.fail(f"{sig}-items-values", f"{vk} {a}: items {iv!r} values {vv!r} expected {ea.tolist()} shape {v.shape}")
            g = vec[r]
            if not self.same_value(g, v, ea):
                self.fail(f"{sig}-getitem", f"{vk}[{r!r}]: {g!r} expected {ea.tolist()} shape {v.shape}")
            pn = v.prom_name(sp) if v.comp != '_auto_ivc' else r
            if pn != r:
                g = vec[pn]
                if not self.same_value(g, v, ea):
                    self.fail(f"{sig}-getitem-promoted", f"{vk}[{pn!r}]: {g!r} expected {ea.tolist()}")
            if r not in vec or pn not in vec:
                self.fail(f"{sig}-contains", f"{vk}: {r!r}/{pn!r} not in vector")
            for flat in (True, False):
                g = vec._abs_get_val(a, flat=flat)
                # get_val is documented with promoted/relative names: only used here where that equals the absolute one
                g2 = vec.get_val(a, flat=flat) if r == a else g
                if not self.same_value(g, v, ea, flat) or not self.same_value(g2, v, ea, flat):
                    self.fail(f"{sig}-abs_get_val", f"{vk} {a} flat={flat}: {g!r} / {g2!r} expected {ea.tolist()}")
            if tuple(vec.get_range(a)) != self.local_rng(sp, k, n, a):
                self.fail(f"{sig}-get_range", f"{vk} {a}: {vec.get_range(a)}")
            if r not in lv:
                self.fail(f"{sig}-local_views", f"{vk}: {r!r} missing from {list(lv)}")
            else:
                arr, is_scalar = lv[r]
                if is_scalar != (v.shape == ()) or arr.shape not in (v.shape, (v.size,) if v.shape == () else v.shape) or \
                        not np.array_equal(np.asarray(arr).ravel(), ea, equal_nan=True):
                    self.fail(f"{sig}-local_views", f"{vk} {r}: {arr!r} scalar={is_scalar} expected {ea.tolist()}")
        if 'no_such_variable' in vec:
            self.fail(f"{sig}-contains", f"{vk}: unknown name reported as contained")
        want_c = bool(self.cs[vk] and self.is_complex(k, n))
        if bool(vec.iscomplex()) != want_c or (vec.dtype.kind == 'c') != want_c:
            self.fail(f"{sig}-iscomplex", f"{vk}: iscomplex {vec.iscomplex()} dtype {vec.dtype} expected complex={want_c}")

    # -- op helpers ---------------------------------------------------------------------------
    def vk_of(self, op):
        sp, k, n = op['v']
        if sp not in self.sysdict or k not in KINDS or n not in VNAMES:
            raise Skip('bad vector')
        return (sp, k, n)

    def other(self, vk, o):
        k2, n2 = o
        sp, k, n = vk
        ok = (sp, k2, n2)
        if (k == 'input') != (k2 == 'input'):
            raise Skip('size mismatch')
        if self.cs[ok] and self.is_complex(k2, n2) and not (self.cs[vk] and self.is_complex(k, n)):
            raise Skip('complex operand into real vector')
        return ok

    def need_val(self, vk, val):
        if val_is_complex(val) and not (self.cs[vk] and self.is_complex(vk[1], vk[2])):
            raise Skip('complex value into real vector')
        return dec_val(val)

    def target(self, vk):
        """(exp root copy, tol root, visible target view, tol view, judge_imag)"""
        sp, k, n = vk
        exp = self.M[(k, n)].copy()
        tol = np.zeros(exp.size)
        sl, _ = self.vsl[vk]
        tv = self.visible(exp, sp, k, n)
        return exp, tol, tv, tol[sl], bool(self.cs[vk])

    def guarded(self, what, f):
        try:
            return True, f()
        except Skip:
            raise
        except Exception as e:
            sig = core.repo_frame_signature(e)
            if sig is None:
                raise
            self.fail(f"{what}:{sig}", f"{type(e).__name__}: {e}")
            return False, None

    def resync(self):
        for key in self.M:
            self.M[key] = self.rootvec[key]._data.copy()

    @staticmethod
    def check_index(idx, n):
        try:
            np.empty(n)[idx]
        except Exception:
            raise Skip('index out of range')

    # -- operations ----------------------------------------------------------------------------
    def run_ops(self, ops):
        for op in ops:
            name = op.get('op')
            f = getattr(self, 'op_' + str(name), None)
            if f is None:
                self.classes.add('op_skipped')
                continue
            try:
                f(op)
            except Skip:
                self.classes.add('op_skipped')
                self.resync()
                continue
            self.executed += 1
            self.classes.add('op_' + name)
            if 'v' in op:
                vk = tuple(op['v'])
                if vk[0] != '':
                    self.classes.add('sub_vec_op')
                if name in MUTATING and len(self.vsl[vk][1]) >= 2:
                    self.mut_multi += 1

    def op_set_val(self, op):
        vk = self.vk_of(op)
        val = self.need_val(vk, op['val'])
        sp, k, n = vk
        exp = self.M[(k, n)].copy()
        tol = np.zeros(exp.size)
        sl, _ = self.vsl[vk]
        idx = dec_idx(op.get('idx'))
        self.check_index(idx, sl.stop - sl.start)
        try:
            exp[sl][idx] = val          # full data incl. imaginary part (documented reset)
        except Exception:
            raise Skip('value does not fit')
        vec = self.vec(*vk)
        if op.get('idx') is None:
            ok, _ = self.guarded('set_val', lambda: vec.set_val(val))
        else:
            ok, _ = self.guarded('set_val', lambda: vec.set_val(val, idx))
        if ok:
            self.compare((k, n), exp, tol, True, 'set_val')
        else:
            self.resync()

    def op_set_vec(self, op):
        vk = self.vk_of(op)
        ok_ = self.other(vk, op['o'])
        sp, k, n = vk
        exp = self.M[(k, n)].copy()
        tol = np.zeros(exp.size)
        sl, _ = self.vsl[vk]
        src = self.visible(self.M[(ok_[1], ok_[2])], *ok_).copy()
        exp[sl] = src
        vec, o = self.vec(*vk), self.vec(*ok_)
        ok, _ = self.guarded('set_vec', lambda: vec.set_vec(o))
        if ok:
            self.compare((k, n), exp, tol, True, 'set_vec')
        else:
            self.resync()

    def op_iop(self, op):
        vk = self.vk_of(op)
        which = op['which']
        form = op['form']
        exp, tol, tv, tt, ji = self.target(vk)
        vec = self.vec(*vk)
        if 'o' in op:
            ok_ = self.other(vk, op['o'])
            o = self.vec(*ok_)
            val = self.visible(self.M[(ok_[1], ok_[2])], *ok_).copy()
            arg = o
            tag = 'vec'
        else:
            val = self.need_val(vk, op['val'])
            arg = val
            tag = 'arr' if isinstance(val, np.ndarray) else 'scalar'
        idx = dec_idx(op.get('idx')) if form == 'method' else slice(None)
        self.check_index(idx, tv.size)
        if form == 'method' and 'o' in op:
            arg = val      # the methods take arrays
        try:
            old = np.abs(tv[idx])
            if which == 'add':
                tv[idx] += val
                tt[idx] = 4 * EPS * (old + np.abs(val))
            elif which == 'sub':
                tv[idx] -= val
                tt[idx] = 4 * EPS * (old + np.abs(val))
            else:
                tv[idx] *= val
                tt[idx] = 6 * EPS * (old * np.abs(val))
        except Exception:
            raise Skip('operand does not fit')
        what = f"i{which}-{form}-{tag}"

        def act():
            v = vec
            if form == 'operator':
                if which == 'add':
                    v += arg
                elif which == 'sub':
                    v -= arg
                else:
                    v *= arg
                if v is not vec:
                    self.fail(f"{what}:operator-returns-other-object", repr(v))
            else:
                m = getattr(vec, 'i' + which)
                if op.get('idx') is None:
                    m(arg)
                else:
                    m(arg, idx)
        ok, _ = self.guarded(what, act)
        if ok:
            self.compare((vk[1], vk[2]), exp, tol, ji, what)
        else:
            self.resync()

    def op_add_scal_vec(self, op):
        vk = self.vk_of(op)
        ok_ = self.other(vk, op['o'])
        val = self.need_val(vk, op['val'])
        exp, tol, tv, tt, ji = self.target(vk)
        b = self.visible(self.M[(ok_[1], ok_[2])], *ok_).copy()
        tt[:] = 6 * EPS * (np.abs(tv) + np.abs(val) * np.abs(b))
        tv += val * b
        vec, o = self.vec(*vk), self.vec(*ok_)
        ok, _ = self.guarded('add_scal_vec', lambda: vec.add_scal_vec(val, o))
        if ok:
            self.compare((vk[1], vk[2]), exp, tol, ji, 'add_scal_vec')
        else:
            self.resync()

    def op_dot(self, op):
        vk = self.vk_of(op)
        k2, n2 = op['o']
        ok_ = (vk[0], k2, n2)
        if (vk[1] == 'input') != (k2 == 'input'):
            raise Skip('size mismatch')
        a = self.visible(self.M[(vk[1], vk[2])], *vk).copy()
        b = self.visible(self.M[(k2, n2)], *ok_).copy()
        expd = np.dot(a, b)
        tol = (a.size + 4) * 2 * EPS * float(np.dot(np.abs(a), np.abs(b)))
        vec, o = self.vec(*vk), self.vec(*ok_)
        ok, got = self.guarded('dot', lambda: vec.dot(o))
        if ok:
            if not (abs(got - expd) <= tol or got == expd):
                self.fail('dot:value', f"{vk}.dot({ok_}) = {got!r} expected {expd!r} tol {tol:.3g}")
            self.compare((vk[1], vk[2]), self.M[(vk[1], vk[2])].copy(), np.zeros(self.M[(vk[1], vk[2])].size), True, 'dot')

    def op_norm(self, op):
        vk = self.vk_of(op)
        a = self.visible(self.M[(vk[1], vk[2])], *vk).copy()
        expn = float(np.sqrt(np.sum(np.abs(a) ** 2)))
        tol = (a.size + 4) * 2 * EPS * expn
        vec = self.vec(*vk)
        ok, got = self.guarded('get_norm', lambda: vec.get_norm())
        if ok:
            if not (abs(got - expn) <= tol) or isinstance(got, complex):
                self.fail('get_norm:value', f"{vk}: {got!r} expected {expn!r} tol {tol:.3g}")
            self.compare((vk[1], vk[2]), self.M[(vk[1], vk[2])].copy(), np.zeros(self.M[(vk[1], vk[2])].size), True, 'get_norm')

    # named access ------------------------------------------------------------------------------
    def var_of(self, vk, op):
        """resolve op['var'] (absolute name) + op['name_form'] into the name passed to the vector."""
        a = op['var']
        sl, names = self.vsl[vk]
        if a not in names:
            raise Skip('variable not in vector')
        v = self.vs[a]
        form = op.get('name_form', 'rel')
        if form == 'prom' and v.comp != '_auto_ivc':
            name = v.prom_name(vk[0])
        else:
            name = v.rel(vk[0])
        return v, a, name

    def var_views(self, vk, exp, tol, absname):
        """visible shaped view of the variable inside exp, same for tol."""
        sp, k, n = vk
        v = self.vs[absname]
        s, e = self.rng[(k, n)][absname]
        a = exp[s:e]
        if not self.cs[vk] and a.dtype.kind == 'c':
            a = a.real
        return a.reshape(v.shape), tol[s:e].reshape(v.shape)

    def op_getitem(self, op):
        vk = self.vk_of(op)
        v, a, name = self.var_of(vk, op)
        vec = self.vec(*vk)
        via = op.get('via', 'getitem')
        flat = bool(op.get('flat', False))
        if via == 'getitem':
            flat = False
            ok, got = self.guarded('getitem', lambda: vec[name])
        elif via == 'get_val':
            # documented argument: promoted or relative name
            try:
                ok, got = True, vec.get_val(name, flat=flat)
            except KeyError as e:
                if name == a:
                    self.fail('get_val:absolute-name-keyerror', f"{vk}.get_val({name!r}) raised KeyError({e})")
                else:
                    self.fail('get_val:relative-or-promoted-name-keyerror',
                              f"{vk}.get_val({name!r}) raised KeyError({e}); documented as 'Promoted or relative variable "
                              f"name in the owning system's namespace'; only the absolute name {a!r} works")
                return
        else:
            ok, got = self.guarded('_abs_get_val', lambda: vec._abs_get_val(a, flat=flat))
        if not ok:
            return
        _, ea = self.expected_var(vk, a)
        if not self.same_value(got, v, ea, flat):
            self.fail(f"{via}:value", f"{vk} {name!r} flat={flat}: {got!r} expected {ea.tolist()} shape {v.shape}")
            return
        w = op.get('write')
        if w is None or not isinstance(got, np.ndarray) or got.shape == ():
            return
        # the returned array must alias exactly the variable's slice
        self.classes.add('named_write')
        val = self.need_val(vk, w['val'])
        exp, tol, _, _, ji = self.target(vk)
        ev, tv = self.var_views(vk, exp, tol, a)
        if flat:
            ev, tv = ev.reshape(-1), tv.reshape(-1)
        idx = dec_idx(w.get('idx'))
        try:
            old = np.abs(ev[idx])
            if w['how'] == 'set':
                ev[idx] = val
            elif w['how'] == 'iadd':
                ev[idx] += val
                tv[idx] = 4 * EPS * (old + np.abs(val))
            else:
                ev[idx] *= val
                tv[idx] = 6 * EPS * (old * np.abs(val))
        except Exception:
            raise Skip('write does not fit')
        if w['how'] == 'set':
            got[idx] = val
        elif w['how'] == 'iadd':
            got[idx] += val
        else:
            got[idx] *= val
        self.compare((vk[1], vk[2]), exp, tol, ji, f"{via}-write-through")

    def _assign(self, ev, idx, val, fallback):
        """NumPy assignment; with `fallback` a value of the right size but wrong shape is reshaped (documented
        behaviour of set_var)."""
        try:
            ev[idx] = val
        except Exception:
            if not fallback:
                raise Skip('value does not fit')
            try:
                ev[idx] = np.asarray(val).reshape(ev[idx].shape)
            except Exception:
                raise Skip('value does not fit')

    def op_setitem(self, op):
        vk = self.vk_of(op)
        v, a, name = self.var_of(vk, op)
        val = self.need_val(vk, op['val'])
        exp, tol, _, _, ji = self.target(vk)
        ev, _ = self.var_views(vk, exp, tol, a)
        self._assign(ev, Ellipsis, val, True)
        vec = self.vec(*vk)

        def act():
            vec[name] = val
        ok, _ = self.guarded('setitem', act)
        if ok:
            self.classes.add('named_write')
            self.compare((vk[1], vk[2]), exp, tol, ji, 'setitem')
        else:
            self.resync()

    def op_set_var(self, op):
        vk = self.vk_of(op)
        v, a, name = self.var_of(vk, op)
        val = self.need_val(vk, op['val'])
        flat = bool(op.get('flat', False))
        exp, tol, _, _, ji = self.target(vk)
        ev, _ = self.var_views(vk, exp, tol, a)
        idx = dec_idx(op.get('idx'))
        if flat:
            ev = ev.reshape(-1)
            try:
                fv = np.asarray(val).ravel()
                if np.ndim(ev[idx]) == 0:
                    if fv.size != 1:
                        raise ValueError('one entry')
                    ev[idx] = fv[0]
                else:
                    ev[idx] = fv
            except Exception:
                raise Skip('value does not fit')
        else:
            try:
                ev[idx]
            except Exception:
                raise Skip('index out of range')
            self._assign(ev, idx, val, True)
        vec = self.vec(*vk)
        raw = None if op.get('idx') is None else idx
        if isinstance(raw, np.ndarray):
            raw = raw if op['idx'].get('nd') else raw.tolist()

        def act():
            if raw is None:
                vec.set_var(name, val, flat=flat)
            else:
                vec.set_var(name, val, raw, flat=flat)
        what = 'set_var-flat' if flat else 'set_var'
        ok, _ = self.guarded(what, act)
        if ok:
            self.classes.add('named_write')
            self.compare((vk[1], vk[2]), exp, tol, ji, what)
        else:
            self.resync()

    def op_abs_set(self, op):
        vk = self.vk_of(op)
        v, a, name = self.var_of(vk, op)
        val = self.need_val(vk, op['val'])
        exp, tol, _, _, ji = self.target(vk)
        ev, _ = self.var_views(vk, exp, tol, a)
        idx = dec_idx(op.get('idx'))
        try:
            ev[idx]
        except Exception:
            raise Skip('index out of range')
        self._assign(ev, idx, val, False)
        vec = self.vec(*vk)
        if op.get('idx') is None:
            ok, _ = self.guarded('_abs_set_val', lambda: vec._abs_set_val(a, val))
        else:
            ok, _ = self.guarded('_abs_set_val', lambda: vec._abs_set_val(a, val, idx))
        if ok:
            self.classes.add('named_write')
            self.compare((vk[1], vk[2]), exp, tol, ji, '_abs_set_val')
        else:
            self.resync()

    def op_get_val_rel(self, op):
        """Vector.get_val is documented to take a promoted or relative name."""
        vk = self.vk_of(op)
        v, a, name = self.var_of(vk, op)
        flat = bool(op.get('flat', True))
        vec = self.vec(*vk)
        _, ea = self.expected_var(vk, a)
        try:
            got = vec.get_val(name, flat=flat)
        except KeyError as e:
            if name != a:
                self.fail('get_val:relative-or-promoted-name-keyerror',
                          f"{vk}.get_val({name!r}) raised KeyError({e}); the docstring says 'Promoted or relative "
                          f"variable name in the owning system's namespace'; only the absolute name {a!r} works")
            else:
                self.fail('get_val:absolute-name-keyerror', f"{vk}.get_val({name!r}) raised KeyError({e})")
            return
        if not self.same_value(got, v, ea, flat):
            self.fail('get_val:value', f"{vk} {name!r} flat={flat}: {got!r} expected {ea.tolist()}")

    def op_asarray(self, op):
        vk = self.vk_of(op)
        vec = self.vec(*vk)
        copy = bool(op.get('copy', False))
        ok, arr = self.guarded('asarray', lambda: vec.asarray(copy=copy) if 'copy' in op else vec.asarray())
        if not ok:
            return
        expv = self.visible(self.M[(vk[1], vk[2])], *vk)
        if arr.shape != expv.shape or arr.dtype != expv.dtype or not np.array_equal(arr, expv, equal_nan=True):
            self.fail('asarray:value', f"{vk} copy={copy}: {arr.tolist()} expected {expv.tolist()}")
            return
        w = op.get('write')
        root_data = self.rootvec[(vk[1], vk[2])]._data
        if copy:
            if arr.size and np.shares_memory(arr, root_data):
                self.fail('asarray:copy-shares-memory', f"{vk}")
            if arr.size:
                arr[:] = 12345.0
            self.compare((vk[1], vk[2]), self.M[(vk[1], vk[2])].copy(), np.zeros(root_data.size), True, 'asarray-copy-write')
        elif w is not None and arr.size:
            val = self.need_val(vk, w['val'])
            exp, tol, tv, tt, ji = self.target(vk)
            idx = dec_idx(w.get('idx'))
            self.check_index(idx, tv.size)
            try:
                tv[idx] = val
            except Exception:
                raise Skip('write does not fit')
            arr[idx] = val
            self.compare((vk[1], vk[2]), exp, tol, ji, 'asarray-write-through')

    def op_get_slice(self, op):
        vk = self.vk_of(op)
        vec = self.vec(*vk)
        s = slice(*op['s'])
        expv = self.visible(self.M[(vk[1], vk[2])], *vk)[s]
        ok, got = self.guarded('get_slice', lambda: vec.get_slice(s))
        if ok and not (got.shape == expv.shape and np.array_equal(got, expv, equal_nan=True)):
            self.fail('get_slice:value', f"{vk} {s}: {got.tolist()} expected {expv.tolist()}")

    def op_add_to_slice(self, op):
        vk = self.vk_of(op)
        val = self.need_val(vk, op['val'])
        if not isinstance(val, np.ndarray):
            raise Skip('add_to_slice takes arrays')
        s = slice(*op['s'])
        exp, tol, tv, tt, ji = self.target(vk)
        try:
            old = np.abs(tv[s])
            tv[s] += val.ravel()
            tt[s] = 4 * EPS * (old + np.abs(val.ravel()))
        except Exception:
            raise Skip('value does not fit')
        vec = self.vec(*vk)
        ok, _ = self.guarded('add_to_slice', lambda: vec.add_to_slice(s, val))
        if ok:
            self.compare((vk[1], vk[2]), exp, tol, ji, 'add_to_slice')
        else:
            self.resync()

    def op_set_vals_by_name(self, op):
        """Vector.set_vals(iter of values in the order of the variables); values are keyed by name in the case and
        put in the vector's order here (variables not listed, i.e. auto-IVC outputs, keep their current value)."""
        vk = self.vk_of(op)
        sl, names = self.vsl[vk]
        if not names:
            raise Skip('no variables')
        exp, tol, _, _, ji = self.target(vk)
        vals = []
        for a in names:
            ev, _ = self.var_views(vk, exp, tol, a)
            v = self.vs[a]
            if a in op['vals']:
                val = self.need_val(vk, op['vals'][a])
            else:
                val = ev.copy() if v.shape != () else ev[()]
            if v.shape == ():
                if isinstance(val, np.ndarray) and val.shape != ():
                    raise Skip('scalar variable takes a scalar')
            elif not isinstance(val, np.ndarray) or val.shape != v.shape:
                raise Skip('value does not fit')
            ev[...] = val
            vals.append(val)
        vec = self.vec(*vk)
        ok, _ = self.guarded('set_vals', lambda: vec.set_vals(vals))
        if ok:
            self.compare((vk[1], vk[2]), exp, tol, ji, 'set_vals')
        else:
            self.resync()

    def op_query(self, op):
        vk = self.vk_of(op)
        self.query(vk, 'op')

    # scaling -----------------------------------------------------------------------------------
    def model_scale(self, vk, exp, tol, direction, mode):
        """apply to_norm / to_phys to the visible slice of exp (in place) and set tol."""
        sp, k, n = vk
        a0, a1, relu = self.scaling(k, n, mode)
        sl, _ = self.vsl[vk]
        a0, a1, relu = a0[sl], a1[sl], relu[sl]
        tv = self.visible(exp, sp, k, n)
        tt = tol[sl]
        x = np.abs(tv)
        if direction == 'norm':
            tt[:] = (8 * EPS + relu) * (x + np.abs(a0)) / np.abs(a1)
            tv -= a0
            tv /= a1
        else:
            tt[:] = (8 * EPS + relu) * (x * np.abs(a1) + np.abs(a0))
            tv *= a1
            tv += a0

    def op_scale_rt(self, op):
        """scale_to_norm then scale_to_phys (or the reverse order) on one vector, as the real callers do."""
        vk = self.vk_of(op)
        sp, k, n = vk
        mode = op.get('mode', 'fwd')
        order = op.get('order', 'norm_phys')
        sysobj = self.objs[sp]
        mask = None
        if k == 'input':
            if self.sysdict[sp]['kind'] != 'group':
                raise Skip('components never scale their inputs')
            owned = self.owned_scaled_targets(sp)
            if not owned:
                raise Skip('group owns no scaled connection')
            if mode == 'rev' and n != 'linear':
                raise Skip('rev scaling is a linear-vector operation')
            if order != 'norm_phys':
                raise Skip('transfers scale to norm first')
            self.classes.add('input_scaling_op')
            if mode == 'rev':
                self.classes.add('rev_scaling_op')
            if n == 'linear' and mode == 'fwd' and sp != '':
                mask = np.zeros(self.M[(k, n)].size, dtype=bool)
                for a in owned:
                    s, e = self.rng[(k, n)][a]
                    mask[s:e] = True
        else:
            if mode != 'fwd':
                raise Skip('outputs/residuals are scaled in fwd form only')
            flag = sysobj._has_output_scaling if k == 'output' else sysobj._has_resid_scaling
            if not flag:
                # the real callers skip the call; the model applies the (identity) scaling from the spec
                a0, a1, _ = self.scaling(k, n)
                sl, _ = self.vsl[vk]
                if np.any(a0[sl] != 0.0) or np.any(a1[sl] != 1.0):
                    self.fail('scaling:flag-false-but-scaled-variables', f"{vk}")
                raise Skip('system has no scaling of this kind')
        self.classes.add('scaling_op')
        vec = self.vec(*vk)
        before = self.M[(k, n)].copy()
        first, second = ('norm', 'phys') if order == 'norm_phys' else ('phys', 'norm')
        ji = bool(self.cs[vk])
        for step in (first, second):
            exp = self.M[(k, n)].copy()
            tol = np.zeros(exp.size)
            self.model_scale(vk, exp, tol, step, mode)
            m = vec.scale_to_norm if step == 'norm' else vec.scale_to_phys
            if mode == 'rev':
                ok, _ = self.guarded('scale', lambda: m(mode='rev'))
            elif op.get('explicit_mode'):
                ok, _ = self.guarded('scale', lambda: m('fwd'))
            else:
                ok, _ = self.guarded('scale', lambda: m())
            if not ok:
                self.resync()
                return
            self.compare((k, n), exp, tol, ji, f"scale_to_{step}-{k}-{n}-{mode}", judge_mask=mask)
        # round trip
        a0, a1, _ = self.scaling(k, n, mode)
        sl, _ = self.vsl[vk]
        tol = np.zeros(before.size)
        xb = np.abs(self.visible(before, sp, k, n))
        if order == 'norm_phys':
            tol[sl] = 16 * EPS * (xb + np.abs(a0[sl]))
        else:
            tol[sl] = 16 * EPS * (xb + np.abs(a0[sl] / a1[sl]))
        act = self.rootvec[(k, n)]._data
        af = self.visible(act, sp, k, n)
        bf = self.visible(before, sp, k, n)
        with np.errstate(all='ignore'):
            bad = ~((np.abs(af - bf) <= tol[sl]) | (af == bf))
        if bad.any():
            i = int(np.argmax(bad))
            self.fail(f"scale-roundtrip-{k}-{n}-{mode}:not-restored",
                      f"{vk} {order}: element {i} before {bf[i]!r} after {af[i]!r} tol {tol[sl][i]:.3g} "
                      f"a0={a0[sl][i]!r} a1={a1[sl][i]!r}")

    def op_ctx(self, op):
        """System._unscaled_context / _scaled_context_all around nested operations."""
        sp = op['sys']
        if sp not in self.sysdict:
            raise Skip('bad system')
        sysobj = self.objs[sp]
        which = op['which']
        if which == 'unscaled':
            n = op.get('vn', 'nonlinear')
            fam = [(kk, n) for kk, on in (('output', op.get('outs', True)), ('residual', op.get('res', True))) if on]
            enter, leave = 'phys', 'norm'
            outs = [self.vec(sp, 'output', n)] if op.get('outs', True) else []
            ress = [self.vec(sp, 'residual', n)] if op.get('res', True) else []
            cm = sysobj._unscaled_context(outputs=outs, residuals=ress)
        else:
            fam = [(kk, n) for kk in ('output', 'residual') for n in VNAMES]
            enter, leave = 'norm', 'phys'
            cm = sysobj._scaled_context_all()
        self.classes.add('scaling_op')
        self.classes.add('ctx_' + which)

        def transition(direction, what):
            exps = {}
            for (kk, n) in fam:
                exp = self.M[(kk, n)].copy()
                tol = np.zeros(exp.size)
                self.model_scale((sp, kk, n), exp, tol, direction, 'fwd')
                exps[(kk, n)] = (exp, tol)
            return exps

        def settle(exps, what):
            # all families change at once: compare each against its own expectation
            for key, (exp, tol) in exps.items():
                act = self.rootvec[key]._data.copy()
                ji = bool(self.cs[(sp,) + key])
                with np.errstate(all='ignore'):
                    bad = ~((np.abs(act.real - exp.real) <= tol) | (act.real == exp.real))
                    if ji and act.dtype.kind == 'c':
                        bad |= ~((np.abs(act.imag - exp.imag) <= tol) | (act.imag == exp.imag))
                if bad.any():
                    i = int(np.argmax(bad))
                    self.fail(f"{what}-{key[0]}-{key[1]}:data-mismatch",
                              f"system {sp!r} {key} element {i}: got {act[i]!r} expected {exp[i]!r} tol {tol[i]:.3g} "
                              f"before {self.M[key][i]!r}")
                self.M[key] = act
            for key in self.M:
                if key not in exps and not np.array_equal(self.rootvec[key]._data, self.M[key], equal_nan=True):
                    self.fail(f"{what}:other-vector-changed", f"{key}")
                    self.M[key] = self.rootvec[key]._data.copy()
            for key in exps:
                self.check_views(key, what)

        exps = transition(enter, 'enter')
        try:
            cm.__enter__()
        except Exception as e:
            sig = core.repo_frame_signature(e)
            if sig is None:
                raise
            self.fail(f"ctx-{which}-enter:{sig}", f"{type(e).__name__}: {e}")
            self.resync()
            return
        settle(exps, f"ctx-{which}-enter")
        try:
            self.run_ops(op.get('body', []))
        finally:
            exps = transition(leave, 'exit')
            try:
                cm.__exit__(None, None, None)
            except Exception as e:
                sig = core.repo_frame_signature(e)
                if sig is None:
                    raise
                self.fail(f"ctx-{which}-exit:{sig}", f"{type(e).__name__}: {e}")
                self.resync()
                return
            settle(exps, f"ctx-{which}-exit")

    def op_cs(self, op):
        sp = op['sys']
        if sp not in self.sysdict:
            raise Skip('bad system')
        on = bool(op['on'])
        if not self.fac:
            raise Skip('complex step needs force_alloc_complex')
        if sp == '':
            ok, _ = self.guarded('cs', lambda: self.p.set_complex_step_mode(on))
        else:
            ok, _ = self.guarded('cs', lambda: self.objs[sp]._set_complex_step_mode(on))
        if not ok:
            return
        if on:
            self.classes.add('cs_mode')
        for s2 in self.syspaths:
            if under(s2, sp) or s2 == sp:
                for k in KINDS:
                    self.cs[(s2, k, 'nonlinear')] = on
                    if self.ln_complex:
                        self.cs[(s2, k, 'linear')] = on
        # nothing may change in the data; the views switch between real and complex
        for key in self.M:
            if not np.array_equal(self.rootvec[key]._data, self.M[key], equal_nan=True):
                self.fail('cs:data-changed', f"{key}")
                self.M[key] = self.rootvec[key]._data.copy()
            self.check_views(key, 'cs')


# ---------------------------------------------------------------------------------------------
# check
# ---------------------------------------------------------------------------------------------

def static_classes(case):
    """Distribution labels read off the generated operation list (used when the case dies before the operations run,
    so that a broken setup is reported as a violation and not as a generator-distribution error)."""
    cls = set()

    def walk(ops):
        for op in ops:
            name = op.get('op')
            if name == 'ctx':
                cls.add('scaling_op')
                walk(op.get('body', []))
            elif name == 'scale_rt':
                cls.add('scaling_op')
                if op['v'][1] == 'input':
                    cls.add('input_scaling_op')
                    if op.get('mode') == 'rev':
                        cls.add('rev_scaling_op')
            elif name == 'cs' and op.get('on'):
                cls.add('cs_mode')
            elif name in ('setitem', 'set_var', 'abs_set') or (name == 'getitem' and op.get('write')):
                cls.add('named_write')
            if 'v' in op and op['v'][0] != '':
                cls.add('sub_vec_op')
    walk(case['ops'])
    return cls


def check(case):
    import warnings
    res = Result()
    m = Machine(case, res)
    with warnings.catch_warnings():
        warnings.simplefilter('ignore')
        try:
            m.start()
        except Skip:
            res.classes = sorted(m.classes | static_classes(case) | {'layout_failed'})
            return res
        except Exception as e:
            sig = core.repo_frame_signature(e)
            if sig is None:
                raise
            res.fail(f"setup:{sig}", f"{type(e).__name__}: {e}")
            res.classes = sorted(static_classes(case) | {'setup_failed'})
            return res
        m.run_ops(case['ops'])
        # leave complex step mode in a defined state and sweep all named access
        m.sweep('end')
    cls = set(m.classes)
    model = case['model']
    if any(np.any(v.ref != 1.0) or np.any(v.ref0 != 0.0) for v in m.vs.values() if v.io == 'output'):
        cls.add('model_output_scaling')
    if any(unit_conv(m.vs[v.src].units, v.units) != (1.0, 0.0) for v in m.vs.values() if v.io == 'input' and v.src):
        cls.add('model_unit_conversion')
    if model['fac']:
        cls.add('model_alloc_complex')
    if any(len(v.shape) >= 2 for v in m.vs.values()):
        cls.add('model_nd_var')
    if any(v.shape == () for v in m.vs.values()):
        cls.add('model_scalar_var')
    if any(v.prom for v in m.vs.values()):
        cls.add('model_promoted')
    if any(s['kind'] == 'group' for s in model['systems']):
        cls.add('model_nested')
    res.classes = sorted(cls)
    res.nontrivial = m.executed >= 3 and m.mut_multi >= 1
    return res


# ---------------------------------------------------------------------------------------------
# Hypothesis strategy
# ---------------------------------------------------------------------------------------------

def strategy(max_ops=24):
    from hypothesis import strategies as st

    # "nice" floats: 0, small integers, or magnitude in [1e-3, 1e3] (no subnormals: the property is not about
    # underflow, and x/scale of a tiny value loses bits legitimately)
    mag = st.floats(1e-3, 1e3, allow_nan=False, allow_infinity=False, width=64)
    nice = st.one_of(st.integers(-4, 4).map(float),
                     st.builds(lambda s, m: s * m, st.sampled_from([-1.0, 1.0]), mag),
                     st.builds(lambda s, m: s * m, st.sampled_from([-1.0, 1.0]), st.floats(0.25, 4.0, width=64)))
    nonzero = st.builds(lambda s, m: s * m, st.sampled_from([-1.0, 1.0, 1.0]),
                        st.one_of(st.sampled_from([0.5, 2.0, 3.0, 10.0, 100.0]),
                                  st.floats(1e-2, 1e2, allow_nan=False, width=64)))

    @st.composite
    def case(draw):
        # ---- hierarchy ----
        gnames = ['g', 'a', 'zz']
        ngroups = draw(st.integers(0, 3))
        groups = ['']
        systems = []
        for i in range(ngroups):
            parent = draw(st.sampled_from([g for g in groups if '.' not in g]))
            name = gnames[i] + str(i)
            path = (parent + '.' if parent else '') + name
            groups.append(path)
            systems.append({'path': path, 'kind': 'group'})
        ncomp = draw(st.integers(1, 5))
        cnames = ['c', 'b', 'y', 'd', 'x']
        comps = []
        vid = [0]

        def new_name(prefix):
            vid[0] += 1
            return prefix + str(vid[0])

        shape_st = st.sampled_from([[], [], [1], [2], [3], [4], [1, 3], [2, 2], [3, 2], [2, 3], [2, 1, 2], [2, 2, 2]])
        outputs = []          # (comp path, dict)
        for i in range(ncomp):
            parent = draw(st.sampled_from(groups))
            name = cnames[i] + str(i)
            path = (parent + '.' if parent else '') + name
            depth = len(path.split('.'))
            kind = draw(st.sampled_from(['exp', 'exp', 'imp']))
            outs = []
            for _ in range(draw(st.integers(1, 3))):
                shape = draw(shape_st)
                size = shape_size(shape)
                d = {'name': new_name('o'), 'shape': shape, 'prom': draw(st.sampled_from([0, 0, 1, 1, 2, 3])) % (depth + 1)}
                d['units'] = draw(st.sampled_from([None, None, 'm', 'cm', 'km', 'ft', 'inch', 's', 'ms', 'h', 'degK', 'degC',
                                                   'degF', 'degR']))
                if draw(st.booleans()):
                    d['val'] = [draw(nice) for _ in range(size)] if (shape and draw(st.booleans())) else draw(nice)
                sc = draw(st.sampled_from(['none', 'none', 'ref', 'ref0only', 'both', 'both', 'arr', 'arr']))
                if sc == 'ref0only':
                    r0 = draw(nice)
                    d['ref0'] = 2.0 if r0 == 1.0 else r0
                elif sc != 'none':
                    arr0 = sc == 'arr' and bool(shape) and draw(st.booleans())
                    arrd = sc == 'arr' and bool(shape) and (not arr0 or draw(st.booleans()))
                    if sc == 'ref':
                        r0 = 0.0
                    else:
                        r0 = [draw(nice) for _ in range(size)] if arr0 else draw(nice)
                    dl = [draw(nonzero) for _ in range(size)] if arrd else draw(nonzero)
                    ref = np.asarray(r0, dtype=float) + np.asarray(dl, dtype=float)
                    ref = np.where(ref - np.asarray(r0, dtype=float) == 0.0, np.asarray(r0, dtype=float) + 1.0, ref)
                    d['ref'] = ref.tolist() if ref.ndim else float(ref)
                    if sc != 'ref':
                        d['ref0'] = r0
                    d['_ref_has_zero'] = bool(np.any(ref == 0.0))
                rs = draw(st.sampled_from(['none', 'none', 'scalar', 'arr']))
                if rs == 'scalar' or (rs == 'arr' and not shape):
                    d['res_ref'] = draw(nonzero)
                elif rs == 'arr':
                    d['res_ref'] = [draw(nonzero) for _ in range(size)]
                if d.pop('_ref_has_zero', False) and 'res_ref' not in d:
                    # an ExplicitComponent's res_ref defaults to ref: a zero there is a user error (division by 0)
                    d['res_ref'] = draw(nonzero)
                outs.append(d)
                outputs.append((path, d))
            comps.append({'path': path, 'kind': kind, 'ins': [], 'outs': outs, '_depth': depth})
        # ---- inputs and connections ----
        conns = []
        for c in comps:
            for _ in range(draw(st.integers(0, 3))):
                cands = [(p, d) for p, d in outputs if p != c['path']]
                d = {'name': new_name('i'), 'prom': draw(st.sampled_from([0, 0, 1, 2])) % (c['_depth'] + 1)}
                if cands and draw(st.integers(0, 3)) > 0:
                    sp, sd = draw(st.sampled_from(cands))
                    d['shape'] = list(sd['shape'])
                    if sd.get('units') and draw(st.integers(0, 4)) > 0:
                        d['units'] = draw(st.sampled_from(FAMILIES[UNITS[sd['units']][0]]))
                    elif sd.get('units') is None and draw(st.integers(0, 5)) == 0:
                        d['units'] = 'm'
                    src_abs = sp + '.' + sd['name']
                    tgt_abs = c['path'] + '.' + d['name']
                    # common ancestor
                    a, b = sp.split('.')[:-1], c['path'].split('.')[:-1]
                    common = []
                    for x, y in zip(a, b):
                        if x != y:
                            break
                        common.append(x)
                    at = '.'.join(common) if draw(st.booleans()) else ''
                    conns.append({'src': src_abs, 'tgt': tgt_abs, 'at': at})
                else:
                    d['shape'] = draw(shape_st)
                    d['units'] = draw(st.sampled_from([None, None, 'm', 'degC', 's']))
                size = shape_size(d['shape'])
                if draw(st.booleans()):
                    d['val'] = [draw(nice) for _ in range(size)] if (d['shape'] and draw(st.booleans())) else draw(nice)
                c['ins'].append(d)
        for c in comps:
            del c['_depth']
        # interleave: groups first (parents before children), then components in drawn order
        order = draw(st.permutations(list(range(len(comps)))))
        systems = systems + [comps[i] for i in order]
        fac = draw(st.sampled_from([False, True, True]))
        newton = draw(st.sampled_from([None, None] + groups)) if fac else draw(st.sampled_from([None, None, None] + groups))
        model = {'fac': fac, 'mode': draw(st.sampled_from(['fwd', 'rev', 'rev'])), 'newton': newton,
                 'systems': systems, 'conns': conns}

        # ---- derived facts for constructive op generation ----
        _, vs = read_spec(model)
        syspaths = [''] + [s['path'] for s in systems]
        n_in = {sp: [a for a, v in vs.items() if v.io == 'input' and under(a, sp)] for sp in syspaths}
        n_out = {sp: [a for a, v in vs.items() if v.io == 'output' and under(a, sp)] for sp in syspaths}
        # every unconnected input gets its own auto-IVC output in the root output/residual vectors
        ln_complex = fac and newton is not None
        cs = {sp: False for sp in syspaths}
        was_cs = set()
        scaled_groups = []
        for c in conns:
            sv, tv = vs[c['src']], vs[c['tgt']]
            if unit_conv(sv.units, tv.units) != (1.0, 0.0) or np.any(sv.ref != 1.0) or np.any(sv.ref0 != 0.0):
                scaled_groups.append(c['at'])

        def vec_size(sp, k):
            if k == 'input':
                return sum(vs[a].size for a in n_in[sp])
            tot = sum(vs[a].size for a in n_out[sp])
            if sp == '':
                tot += sum(v.size for v in vs.values() if v.io == 'input' and v.src is None)
            return tot

        def is_cs(sp, n):
            return cs[sp] and (n == 'nonlinear' or ln_complex)

        def scalar_val(cplx):
            if cplx and draw(st.integers(0, 3)) > 0:
                return {'re': draw(nice), 'im': draw(nice)}
            return {'re': draw(nice)}

        def array_val(n, cplx, shape=None):
            v = {'re': [draw(nice) for _ in range(n)]}
            if cplx and draw(st.integers(0, 3)) > 0:
                v['im'] = [draw(nice) for _ in range(n)]
            if shape is not None:
                v['shape'] = list(shape)
            return v

        def idx1(n):
            """index into a 1-D array of length n>0 and the number of selected entries."""
            kind = draw(st.sampled_from(['none', 's', 's', 'i', 'a']))
            if kind == 'none' or n == 0:
                return None, n
            if kind == 'i':
                return {'i': draw(st.integers(-n, n - 1))}, 0
            if kind == 'a':
                arr = [draw(st.integers(-n, n - 1)) for _ in range(draw(st.integers(1, 3)))]
                arr = list(dict.fromkeys(arr))      # no duplicate positions (+= on duplicates is unbuffered)
                arr = list({(x % n): x for x in arr}.values())
                return {'a': arr}, len(arr)
            a = draw(st.one_of(st.none(), st.integers(-n, n)))
            b = draw(st.one_of(st.none(), st.integers(-n, n)))
            c = draw(st.sampled_from([None, 1, 1, 2, -1]))
            e = {'s': [a, b, c]}
            return e, len(range(*slice(a, b, c).indices(n)))

        def idx_nd(shape):
            """index into an N-D variable, returns (encoded idx, selected shape)."""
            if len(shape) == 0:
                return draw(st.sampled_from([None, '...'])), ()
            form = draw(st.sampled_from(['none', 'tuple', 'tuple', 'first', '...']))
            if form == 'none':
                return None, tuple(shape)
            if form == '...':
                return '...', tuple(shape)
            parts = []
            dims = shape if form == 'tuple' else shape[:1]
            for ext in dims:
                k = draw(st.sampled_from(['s', 's', 'i', 'full']))
                if k == 'i':
                    parts.append({'i': draw(st.integers(-ext, ext - 1))})
                elif k == 'full':
                    parts.append({'s': [None, None, None]})
                else:
                    a = draw(st.one_of(st.none(), st.integers(-ext, ext)))
                    b = draw(st.one_of(st.none(), st.integers(-ext, ext)))
                    parts.append({'s': [a, b, draw(st.sampled_from([None, 1, 2, -1]))]})
            e = {'t': parts} if (form == 'tuple' or draw(st.booleans())) else parts[0]
            sel = np.empty(tuple(shape))[dec_idx(e)].shape
            return e, sel

        def fit_val(sel_shape, cplx):
            n = shape_size(sel_shape)
            if draw(st.integers(0, 3)) == 0 or n == 0:
                return scalar_val(cplx)
            return array_val(n, cplx, sel_shape)

        focus = [None]

        def pick_vec(kinds=KINDS):
            if focus[0] is not None and draw(st.integers(0, 4)) > 0:
                sp = draw(st.sampled_from([p for p in syspaths if p == focus[0] or under(p, focus[0])]))
            else:
                sp = draw(st.sampled_from(syspaths + [p for p in syspaths if p != ''])) if len(syspaths) > 1 else ''
            k = draw(st.sampled_from(list(kinds)))
            n = draw(st.sampled_from(VNAMES))
            return sp, k, n

        def names_in(sp, k):
            return n_in[sp] if k == 'input' else n_out[sp]

        def other_of(sp, k, n):
            ks = ['input'] if k == 'input' else ['output', 'residual']
            cands = [(k2, n2) for k2 in ks for n2 in VNAMES if not is_cs(sp, n2) or is_cs(sp, n)]
            return list(draw(st.sampled_from(cands)))

        def gen_op(depth):
            kinds = ['set_val', 'set_vec', 'iop', 'iop', 'iop', 'add_scal_vec', 'dot', 'norm', 'getitem', 'getitem',
                     'setitem', 'set_var', 'set_var', 'abs_set', 'asarray', 'slice', 'set_vals', 'query', 'scale_rt',
                     'scale_rt', 'scale_in', 'scale_in', 'scale_in', 'ctx', 'ctx', 'cs', 'cs', 'get_val_rel']
            if depth > 0:
                kinds = [x for x in kinds if x not in ('cs',)]
            name = draw(st.sampled_from(kinds))
            dirty = [sp for sp in sorted(was_cs) if not cs[sp]]
            if dirty and depth == 0 and draw(st.integers(0, 2)) == 0:
                # imaginary parts were written under complex step and the mode is off again: the documented reset of
                # the imaginary part by set_val/set_vec is observable now
                sp = draw(st.sampled_from(dirty))
                k = draw(st.sampled_from(KINDS))
                n = draw(st.sampled_from(VNAMES)) if ln_complex else 'nonlinear'
                if draw(st.integers(0, 3)) == 0:
                    return {'op': 'set_vec', 'v': [sp, k, n], 'o': other_of(sp, k, n)}
                idx, nsel = idx1(vec_size(sp, k))
                val = scalar_val(False) if (nsel == 0 or draw(st.booleans())) else array_val(nsel, False)
                return {'op': 'set_val', 'v': [sp, k, n], 'idx': idx, 'val': val}
            if name == 'cs':
                if not fac:
                    name = 'iop'
                else:
                    sp = draw(st.sampled_from(syspaths))
                    on = not cs[sp] if draw(st.integers(0, 3)) else draw(st.booleans())
                    for s2 in syspaths:
                        if under(s2, sp) or s2 == sp:
                            cs[s2] = on
                            if on:
                                was_cs.add(s2)
                    return {'op': 'cs', 'sys': sp, 'on': on}
            if name == 'ctx':
                sp = draw(st.sampled_from(syspaths))
                which = draw(st.sampled_from(['unscaled', 'scaled_all']))
                o = {'op': 'ctx', 'sys': sp, 'which': which}
                if which == 'unscaled':
                    o['vn'] = draw(st.sampled_from(VNAMES))
                    o['outs'] = draw(st.sampled_from([True, True, False]))
                    o['res'] = draw(st.sampled_from([True, True, False]))
                nb = draw(st.integers(0, 3)) if depth < 2 else 0
                o['body'] = [gen_op(depth + 1) for _ in range(nb)]
                return o
            if name == 'scale_in':
                gs = scaled_groups
                if not gs:
                    name = 'scale_rt'
                else:
                    sp = draw(st.sampled_from(gs))
                    n = draw(st.sampled_from(VNAMES))
                    mode = draw(st.sampled_from(['fwd', 'rev'])) if n == 'linear' else 'fwd'
                    return {'op': 'scale_rt', 'v': [sp, 'input', n], 'mode': mode, 'order': 'norm_phys'}
            if name == 'scale_rt':
                sp, k, n = pick_vec(kinds=('output', 'residual'))
                o = {'op': 'scale_rt', 'v': [sp, k, n], 'mode': 'fwd',
                     'order': draw(st.sampled_from(['norm_phys', 'phys_norm']))}
                if draw(st.integers(0, 3)) == 0:
                    o['explicit_mode'] = True
                return o
            sp, k, n = pick_vec()
            cplx = is_cs(sp, n)
            size = vec_size(sp, k)
            v = [sp, k, n]
            if name == 'set_val':
                idx, nsel = idx1(size)
                val = scalar_val(cplx) if (nsel == 0 or draw(st.booleans())) else array_val(nsel, cplx)
                return {'op': 'set_val', 'v': v, 'idx': idx, 'val': val}
            if name == 'set_vec':
                return {'op': 'set_vec', 'v': v, 'o': other_of(sp, k, n)}
            if name == 'iop':
                which = draw(st.sampled_from(['add', 'sub', 'mul']))
                form = draw(st.sampled_from(['operator', 'method']))
                o = {'op': 'iop', 'v': v, 'which': which, 'form': form}
                operand = draw(st.sampled_from(['scalar', 'array', 'vec']))
                if operand == 'vec':
                    o['o'] = other_of(sp, k, n)
                elif form == 'method':
                    idx, nsel = idx1(size)
                    o['idx'] = idx
                    o['val'] = scalar_val(cplx) if (operand == 'scalar' or nsel == 0) else array_val(nsel, cplx)
                else:
                    o['val'] = scalar_val(cplx) if operand == 'scalar' else array_val(size, cplx)
                return o
            if name == 'add_scal_vec':
                return {'op': 'add_scal_vec', 'v': v, 'val': scalar_val(cplx), 'o': other_of(sp, k, n)}
            if name == 'dot':
                ks = ['input'] if k == 'input' else ['output', 'residual']
                return {'op': 'dot', 'v': v, 'o': [draw(st.sampled_from(ks)), draw(st.sampled_from(VNAMES))]}
            if name == 'norm':
                return {'op': 'norm', 'v': v}
            if name == 'asarray':
                o = {'op': 'asarray', 'v': v}
                if draw(st.booleans()):
                    o['copy'] = draw(st.booleans())
                if not o.get('copy') and size:
                    idx, nsel = idx1(size)
                    o['write'] = {'idx': idx, 'val': scalar_val(cplx) if (nsel == 0 or draw(st.booleans()))
                                  else array_val(nsel, cplx)}
                return o
            if name == 'slice':
                a = draw(st.integers(0, size))
                b = draw(st.integers(a, size))
                if draw(st.booleans()):
                    return {'op': 'get_slice', 'v': v, 's': [a, b, None]}
                return {'op': 'add_to_slice', 'v': v, 's': [a, b, None], 'val': array_val(b - a, cplx)}
            if name == 'query':
                return {'op': 'query', 'v': v}
            names = names_in(sp, k)
            if name == 'set_vals':
                if names:
                    vals = {}
                    for a in names:
                        var = vs[a]
                        vals[a] = scalar_val(cplx) if var.shape == () else array_val(var.size, cplx, var.shape)
                    return {'op': 'set_vals_by_name', 'v': v, 'vals': vals}
                name = 'norm'
            if not names:
                return {'op': 'norm', 'v': v}
            a = draw(st.sampled_from(names))
            var = vs[a]
            nf = draw(st.sampled_from(['rel', 'prom']))
            if name == 'get_val_rel':
                return {'op': 'get_val_rel', 'v': v, 'var': a, 'name_form': nf, 'flat': draw(st.booleans())}
            if name == 'getitem':
                via = draw(st.sampled_from(['getitem', 'getitem', 'get_val', '_abs_get_val']))
                o = {'op': 'getitem', 'v': v, 'var': a, 'name_form': nf, 'via': via}
                flat = False
                if via != 'getitem':
                    flat = draw(st.booleans())
                    o['flat'] = flat
                if var.shape != () or flat:
                    if flat:
                        idx, nsel = idx1(var.size)
                        sel = () if (idx is not None and 'i' in idx) else (nsel,)
                    else:
                        idx, sel = idx_nd(list(var.shape))
                    o['write'] = {'idx': idx, 'how': draw(st.sampled_from(['set', 'iadd', 'imul'])),
                                  'val': fit_val(sel, cplx)}
                return o
            if name == 'setitem':
                form = draw(st.sampled_from(['scalar', 'shaped', 'shaped', 'flat']))
                if form == 'scalar' or var.size == 0:
                    val = scalar_val(cplx)
                elif form == 'shaped':
                    val = array_val(var.size, cplx, var.shape)
                else:
                    val = array_val(var.size, cplx)
                return {'op': 'setitem', 'v': v, 'var': a, 'name_form': nf, 'val': val}
            if name == 'set_var':
                flat = draw(st.booleans())
                if flat:
                    idx, nsel = idx1(var.size)
                    if idx is not None and 'i' in idx:
                        val = scalar_val(cplx)
                    elif draw(st.integers(0, 3)) == 0:
                        val = scalar_val(cplx)
                    else:
                        val = array_val(nsel, cplx)
                else:
                    idx, sel = idx_nd(list(var.shape))
                    val = fit_val(sel, cplx)
                return {'op': 'set_var', 'v': v, 'var': a, 'name_form': nf, 'idx': idx, 'flat': flat, 'val': val}
            if name == 'abs_set':
                idx, sel = idx_nd(list(var.shape))
                return {'op': 'abs_set', 'v': v, 'var': a, 'idx': idx, 'val': fit_val(sel, cplx)}
            return {'op': 'norm', 'v': v}

        def toggle(sp, on):
            for s2 in syspaths:
                if under(s2, sp) or s2 == sp:
                    cs[s2] = on
                    if on:
                        was_cs.add(s2)
            return {'op': 'cs', 'sys': sp, 'on': on}

        nops = draw(st.integers(4, max_ops))
        ops = []
        while len(ops) < nops:
            if fac and not any(cs.values()) and draw(st.integers(0, 9)) == 0:
                # a complex-step episode on one sub-tree: on, a few operations with complex operands, off
                sp = draw(st.sampled_from(syspaths))
                ops.append(toggle(sp, True))
                focus[0] = sp
                for _ in range(draw(st.integers(1, 4))):
                    ops.append(gen_op(1))
                focus[0] = None
                ops.append(toggle(sp, False))
            else:
                ops.append(gen_op(0))
        return {'model': model, 'ops': ops}

    return case()


# ---------------------------------------------------------------------------------------------
# work units
# ---------------------------------------------------------------------------------------------

def units(tier, seed):
    if tier == 'quick':
        return [{'kind': 'random', 'n': 300, 'seed': core.shard_seed(seed, ID, i)} for i in range(16)]
    return [{'kind': 'random', 'n': 2500, 'seed': core.shard_seed(seed, ID, i)} for i in range(32)]


def run_unit(unit, ctx):
    core.run_hypothesis(ctx, strategy(), check, unit['n'], unit['seed'], shrink=unit.get('tier') == 'thorough')
