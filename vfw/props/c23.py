"""C23  DOE generators stay within bounds and cover their designs.

Domain : design-variable sets (1-4 variables, source sizes 1-3, scalar / array / mixed bounds incl. lower == upper,
         units, scaler/adder or ref/ref0, indices) x generators {Uniform, FullFactorial(levels int | dict),
         GeneralizedSubset, PlackettBurman, BoxBehnken, LatinHypercube(samples, criterion, iterations, seed), List, CSV}
         in the DOEDriver API (drivers/doe_generators.py) and the AnalysisDriver API (drivers/sampling/*), judged at
         generator level ('gen') and through DOEDriver / AnalysisDriver runs on a spy model ('drv').
Oracle : written from the docstrings: values within [lower, upper]; full factorial == itertools.product of the
         evenly spaced levels (multiset); factorial-type designs == the trusted third-party pydoe design matrix mapped
         level-by-level onto linspace(lower, upper, levels) in order; Latin hypercube: one sample per stratum of every
         dimension (stratum centres for the centred criteria); seeded generators reproducible; generator objects
         reusable; drivers evaluate the model at exactly the generated values, once per case, in order.
"""
import itertools
import os
import shutil
import tempfile
import traceback
import warnings

import numpy as np

from vfw import core
from vfw.core import Result

ID = 'C23'
LEVEL = 'exploration'
TECHNIQUE = ('Hypothesis-generated design-variable sets x generator configurations; closed-form design oracles '
             '(itertools.product of level tables, stratum occupancy, pydoe design matrix as trusted index table); '
             'spy component recording the inputs of every model evaluation under DOEDriver / AnalysisDriver')
RULE = ("case = (1-4 variables with source size 1-3, optional indices, scalar/array/mixed bounds, units of a length or "
        "temperature family, optional scaler/adder or ref/ref0) x one generator configuration x API (DOEDriver "
        "generators | AnalysisDriver sampling generators) x mode (gen: generator called directly on the driver's "
        "design-variable metadata / var_dict, incl. second call, fresh twin, reuse on a sub-set; drv: driver run on a "
        "spy model, optionally with a SqliteRecorder). Non-trivial = judged and (>=2 variables one of which has array "
        "bounds, or dict levels, or a Latin hypercube whose sample count differs from the number of factors, or a "
        "driver run with units/indices). Distinct = distinct canonical JSON of the case.")
ASSUMPTIONS = [
    "the pydoe package is trusted: its design matrices (fullfact, gsd, pbdesign, bbdesign) are the specification of "
    "which level index each run uses; any exception with a frame inside site-packages/pydoe is a discard",
    "levels are np.linspace(lower, upper, levels) per scalar factor (docstring: 'evenly spaced levels between each "
    "design variable lower and upper bound'); level value tolerance 4 ulp of max(|lower|,|upper|) + 4 ulp of the span; "
    "bounds tolerance 2 ulp of max(|lower|,|upper|); a factor takes part in the level-index multiset only when its level "
    "spacing exceeds 16x that tolerance (otherwise membership and multiplicity only)",
    "GeneralizedSubset with n >= 2 complementary designs: the reference is the multiset of runs of all n pydoe designs "
    "(their order is not specified); on the current tree this input crashes (known finding F23a)",
    "Plackett-Burman -1/+1 map to lower/upper, Box-Behnken -1/0/+1 map to lower/midpoint/upper (the usual coded-level convention)",
    "Latin hypercube strata are [k/n, (k+1)/n) of the normalised range; occupancy is judged with a tolerance "
    "delta = n*8*eps*max(|l|,|u|)/(u-l) + 1e-12 on the normalised coordinate; dimensions with lower == upper only "
    "have to sit on the bound",
    "in this version Driver._designvars holds lower/upper in physical design-variable units and DOEDriver sets "
    "generated values unscaled, so model value == generated value converted from the design variable's units to the "
    "input's units (own conversion table: m/cm/mm/km, degK/degC/degF); scaler/adder/ref/ref0 must not influence it; "
    "driver comparison tolerance 1e-11 relative (+1e-9 absolute for the temperature family)",
    "List/CSV generators: bounds are documented as not enforced; only identity of the yielded values with the "
    "given data (CSV: 1 ulp of the decimal text) and exact evaluation by the driver are judged; names are the "
    "names passed to add_design_var",
    "unseeded Latin hypercube designs come from pydoe's OS-seeded default_rng: the oracle is a validity predicate; "
    "numpy's global RNG (UniformGenerator) is seeded from the case",
    "BoxBehnken with fewer than 3 factors must raise RuntimeError (raise in the code, treated as documented rejection)",
]
BOUND = {'quick': '2 shards x 850 Hypothesis cases', 'thorough': '8 shards x 4000 Hypothesis cases'}
MIN_CLASS_FRACTION = {'judged': 0.75, 'mode_drv': 0.2, 'api_samp': 0.15, 'gen_ff': 0.05, 'gen_lhs': 0.05}
UNIT_TIMEOUT = {'quick': 1800, 'thorough': 14400}

EPS = np.finfo(float).eps

# own unit table: value_in_base = (v + offset) * factor
UNITS = {'m': (1.0, 0.0), 'cm': (0.01, 0.0), 'mm': (0.001, 0.0), 'km': (1000.0, 0.0),
         'degK': (1.0, 0.0), 'degC': (1.0, 273.15), 'degF': (5.0 / 9.0, 459.67)}
FAMILIES = (('m', 'cm', 'mm', 'km'), ('degK', 'degC', 'degF'))
CENTRED = ('center', 'c', 'centermaximin', 'cm')


def conv(v, a, b):
    v = np.asarray(v, dtype=float)
    if a is None or b is None or a == b:
        return v.copy()
    fa, oa = UNITS[a]
    fb, ob = UNITS[b]
    return (v + oa) * fa / fb - ob


# ---------------------------------------------------------------------------------------------
# known findings: predicates over the input
# ---------------------------------------------------------------------------------------------

def known_gsd_n(case):
    """F23a: GeneralizedSubsetGenerator(n >= 2): pydoe.gsd returns a *list* of n designs, OpenMDAO calls .astype on it."""
    g = case['gen']
    return g['type'] == 'gsd' and g.get('n', 1) >= 2


def known_samp_uniform_seed(case):
    """F23b: sampling.UniformGenerator seeds numpy's global RNG in the constructor but draws lazily in __next__."""
    g = case['gen']
    return case['api'] == 'samp' and g['type'] == 'uniform' and g.get('seed') is not None


def known_lhs_sticky(case):
    """F23c: LatinHypercubeGenerator(samples=None) stores the first call's factor count in self._samples."""
    g = case['gen']
    return case['api'] == 'doe' and g['type'] == 'lhs' and g.get('samples') is None and len(case['vars']) >= 2


# ---------------------------------------------------------------------------------------------
# case helpers
# ---------------------------------------------------------------------------------------------

def names_of(case):
    pre = 'iv.' if (case['style'] == 'ivc' and not case.get('promote', True)) else ''
    return [f"{pre}x{i}" for i in range(len(case['vars']))]


def dvsize(v):
    return len(v['indices']) if v['indices'] is not None else v['n']


def bounds_of(v):
    m = dvsize(v)
    lo = np.array(np.broadcast_to(np.asarray(v['lower'], dtype=float), (m,)))
    hi = np.array(np.broadcast_to(np.asarray(v['upper'], dtype=float), (m,)))
    return lo, hi


def as_bound(b):
    return np.array(b, dtype=float) if isinstance(b, list) else float(b)


def level_list(case, vars_, names):
    """levels per scalar factor, from the documented semantics (int: all; dict: name, else 'default', else 2)."""
    lv = case['gen']['levels']
    out = []
    for v, name in zip(vars_, names):
        if isinstance(lv, int):
            k = lv
        else:
            k = lv['by_var'].get(name[name.rfind('x'):], lv.get('default') if lv.get('default') is not None else 2)
        out += [k] * dvsize(v)
    return out


def levels_arg(case, names):
    lv = case['gen']['levels']
    if isinstance(lv, int):
        return lv
    d = {}
    for name in names:
        key = name[name.rfind('x'):]
        if key in lv['by_var']:
            d[name] = lv['by_var'][key]
    for key, k in lv['by_var'].items():
        if not (key.startswith('x') and key[1:].isdigit()):
            d[key] = k                       # a key that names no design variable
    if lv.get('default') is not None:
        d['default'] = lv['default']
    return d


def lin_levels(l, u, k):
    if k == 1:
        return np.array([l])
    e = l + np.arange(k) * ((u - l) / (k - 1))
    e[-1] = u
    return e


def in_pydoe(exc):
    tb = traceback.extract_tb(exc.__traceback__)
    for fr in tb:
        fn = fr.filename.replace('\\', '/').lower()
        if '/pydoe/' in fn or '/pydoe2/' in fn or '/pydoe3/' in fn:      # a package directory, not pyDOE_generators.py
            return True
    return False


# ---------------------------------------------------------------------------------------------
# construction of generators and models
# ---------------------------------------------------------------------------------------------

def make_doe_gen(case, names, workdir):
    import openmdao.api as om
    g = case['gen']
    t = g['type']
    if t == 'uniform':
        return om.UniformGenerator(num_samples=g['num_samples'], seed=g['seed'])
    if t == 'ff':
        return om.FullFactorialGenerator(levels=levels_arg(case, names))
    if t == 'gsd':
        return om.GeneralizedSubsetGenerator(levels=levels_arg(case, names), reduction=g['reduction'], n=g['n'])
    if t == 'pb':
        return om.PlackettBurmanGenerator()
    if t == 'bb':
        return om.BoxBehnkenGenerator(center=g['center'])
    if t == 'lhs':
        kw = {} if g['iterations'] is None else {'iterations': g['iterations']}
        return om.LatinHypercubeGenerator(samples=g['samples'], criterion=g['criterion'], seed=g['seed'], **kw)
    if t == 'list':
        return om.ListGenerator(list_data(case, names))
    if t == 'csv':
        path = os.path.join(workdir, 'cases.csv')
        with open(path, 'w') as f:
            f.write(csv_text(case, names))
        return om.CSVGenerator(path)
    raise ValueError(t)


def list_data(case, names):
    data = []
    for row in case['gen']['rows']:
        r = []
        for ent in row:
            val = ent['val']
            if ent['form'] == 'array':
                val = np.array(val, dtype=float)
            elif ent['form'] == 'float':
                val = float(val[0])
            else:
                val = list(val)
            r.append((names[ent['var']], val) if ent.get('pair', 'tuple') == 'tuple' else [names[ent['var']], val])
        data.append(r)
    return data


def csv_text(case, names):
    g = case['gen']
    pad = g.get('pad', 0)
    sp = ' ' * pad
    lines = [','.join(sp + n + sp for n in names)]
    for row in g['rows']:
        cells = []
        for ent in row:
            txt = ' '.join(repr(float(x)) for x in ent['val'])
            if ent['form'] == 'bracket':
                txt = '[' + txt + ']'
            cells.append(sp + txt)
        lines.append(','.join(cells))
    return '\n'.join(lines) + '\n'


def var_dict_of(case, names):
    d = {}
    for v, name in zip(case['vars'], names):
        lo, hi = as_bound(v['lower']), as_bound(v['upper'])
        # the sampling API takes the factor size from np.size(lower) == np.size(upper): array bounds for sizes > 1
        if isinstance(lo, float) != isinstance(hi, float) or (isinstance(lo, float) and dvsize(v) > 1):
            lo, hi = bounds_of(v)
        meta = {'lower': lo, 'upper': hi}
        if v['dv_units'] is not None:
            meta['units'] = v['dv_units']
        if v['indices'] is not None:
            meta['indices'] = list(v['indices'])
        d[name] = meta
    return d


def make_samp_gen(case, names):
    from openmdao.drivers.sampling import pyDOE_generators as pg
    from openmdao.drivers.sampling.uniform_generator import UniformGenerator
    g = case['gen']
    t = g['type']
    vd = var_dict_of(case, names)
    if t == 'uniform':
        return UniformGenerator(vd, num_samples=g['num_samples'], seed=g['seed'])
    if t == 'ff':
        return pg.FullFactorialGenerator(vd, levels=levels_arg(case, names))
    if t == 'gsd':
        return pg.GeneralizedSubsetGenerator(vd, levels=levels_arg(case, names), reduction=g['reduction'], n=g['n'])
    if t == 'pb':
        return pg.PlackettBurmanGenerator(vd)
    if t == 'bb':
        return pg.BoxBehnkenGenerator(vd, center=g['center'])
    if t == 'lhs':
        kw = {} if g['iterations'] is None else {'iterations': g['iterations']}
        return pg.LatinHypercubeGenerator(vd, samples=g['samples'], criterion=g['criterion'], seed=g['seed'], **kw)
    raise ValueError(t)


def build_problem(case, names, driver=None, analysis=False):
    import openmdao.api as om
    vars_ = case['vars']
    log = []

    class Spy(om.ExplicitComponent):
        def setup(self):
            for i, v in enumerate(vars_):
                if case['style'] == 'auto':
                    self.add_input(f"x{i}", val=np.array(v['init'], dtype=float), units=v['in_units'])
                else:
                    self.add_input(f"x{i}", val=np.zeros(v['n']), units=v['in_units'])
            self.add_output('y', val=0.0)

        def compute(self, inputs, outputs):
            log.append([np.array(inputs[f"x{i}"], dtype=float).ravel().copy() for i in range(len(vars_))])
            outputs['y'] = float(sum(np.sum(inputs[f"x{i}"]) for i in range(len(vars_))))

    p = om.Problem(reports=False)
    if case['style'] == 'auto':
        p.model.add_subsystem('spy', Spy(), promotes_inputs=['*'])
    else:
        ivc = p.model.add_subsystem('iv', om.IndepVarComp(), promotes=['*'] if case.get('promote', True) else None)
        for i, v in enumerate(vars_):
            ivc.add_output(f"x{i}", val=np.array(v['init'], dtype=float), units=v['src_units'])
        p.model.add_subsystem('spy', Spy())
        for i, name in enumerate(names):
            p.model.connect(name, f"spy.x{i}")
    if not analysis:
        for v, name in zip(vars_, names):
            kw = dict(v['scaling'] or {})
            if v['dv_units'] is not None:
                kw['units'] = v['dv_units']
            if v['indices'] is not None:
                kw['indices'] = list(v['indices'])
            p.model.add_design_var(name, lower=as_bound(v['lower']), upper=as_bound(v['upper']), **kw)
        p.model.add_objective('spy.y')
    if driver is not None:
        p.driver = driver
        if analysis:
            p.driver.add_response('spy.y')
    return p, log


# ---------------------------------------------------------------------------------------------
# normalisation of generator output
# ---------------------------------------------------------------------------------------------

def norm_doe_rows(raw, names, vars_, algorithmic, fail):
    """DOE API: every case is a list of (name, value). Returns list of rows; row = list of (var index, 1-D array)."""
    rows = []
    for r, c in enumerate(raw):
        row = []
        if algorithmic and [n for n, _ in c] != names:
            fail('row-structure:names', f"case {r}: names {[n for n, _ in c]} expected {names}")
            return None
        for n, val in c:
            if n not in names:
                fail('row-structure:names', f"case {r}: unknown name {n!r}")
                return None
            i = names.index(n)
            a = np.array(val, dtype=float).ravel()
            if algorithmic and (not isinstance(val, np.ndarray) or a.size != dvsize(vars_[i])):
                fail('row-structure:value-shape', f"case {r}: {n} -> {val!r}, expected ndarray of size {dvsize(vars_[i])}")
                return None
            row.append((i, a))
        rows.append(row)
    return rows


def norm_samp_rows(raw, names, case, fail):
    vd = var_dict_of(case, names)
    rows = []
    for r, d in enumerate(raw):
        if list(d.keys()) != names:
            fail('row-structure:names', f"sample {r}: keys {list(d.keys())} expected {names}")
            return None
        row = []
        for i, n in enumerate(names):
            ent = d[n]
            a = np.array(ent['val'], dtype=float).ravel()
            if a.size != dvsize(case['vars'][i]):
                fail('row-structure:value-shape', f"sample {r}: {n} -> {ent['val']!r}")
                return None
            if ent.get('units') != vd[n].get('units') or ent.get('indices') != vd[n].get('indices'):
                fail('row-structure:units-indices', f"sample {r}: {n} units/indices {ent.get('units')!r}/{ent.get('indices')!r} "
                     f"expected {vd[n].get('units')!r}/{vd[n].get('indices')!r}")
                return None
            row.append((i, a))
        rows.append(row)
    return rows


def copy_doe_case(c):
    return [(n, np.array(v, copy=True) if isinstance(v, np.ndarray) else (list(v) if isinstance(v, list) else v)) for n, v in c]


def copy_samp(d):
    return {n: {'val': np.array(e['val'], copy=True), 'units': e.get('units'),
                'indices': (list(e['indices']) if isinstance(e.get('indices'), (list, tuple)) else e.get('indices'))}
            for n, e in d.items()}


def matrix(rows, nvars):
    """Rows (all variables present, in order) -> 2-D array of scalar factors."""
    if not rows:
        return np.zeros((0, 0))
    return np.array([np.concatenate([a for _, a in row]) for row in rows], dtype=float)


def same_rows(a, b):
    if len(a) != len(b):
        return False
    for ra, rb in zip(a, b):
        if len(ra) != len(rb):
            return False
        for (i, x), (j, y) in zip(ra, rb):
            if i != j or x.shape != y.shape or not np.array_equal(x, y):
                return False
    return True


# ---------------------------------------------------------------------------------------------
# generator-level oracle
# ---------------------------------------------------------------------------------------------

class ThirdParty(Exception):
    pass


def judge_design(case, vars_, names, rows, fail):
    """Judge one complete output of an algorithmic generator on the variable set vars_ (names: their names)."""
    g = case['gen']
    t = g['type']
    los, his = zip(*[bounds_of(v) for v in vars_])
    L = np.concatenate(los)
    U = np.concatenate(his)
    F = L.size
    X = matrix(rows, len(vars_))
    R = len(rows)
    mag = np.maximum(np.abs(L), np.abs(U))
    if R:
        tol = 2 * np.spacing(mag)
        ok = (X >= L - tol) & (X <= U + tol)
        if not np.all(ok):
            r, j = np.argwhere(~ok)[0]
            fail('out-of-bounds', f"run {r} factor {j}: value {float(X[r, j])!r} not in [{float(L[j])!r}, {float(U[j])!r}]")
    ltol = 4 * np.spacing(mag) + 4 * np.spacing(np.abs(U - L))

    def design_map(D, table, ordered=True):
        """D: integer level indices per run; table[j]: level values of factor j."""
        D = np.asarray(D)
        if D.shape != (R, F):
            fail('design-map:shape', f"{R} runs of {F} factors generated, pydoe design has shape {D.shape}")
            return
        E = np.array([[table[j][int(D[r, j])] for j in range(F)] for r in range(D.shape[0])]).reshape(D.shape)
        Xc = X
        if not ordered:                     # compare as multisets of runs
            E = E[np.lexsort(E.T[::-1])]
            Xc = X[np.lexsort(X.T[::-1])]
        bad = np.abs(Xc - E) > ltol
        if np.any(bad):
            r, j = np.argwhere(bad)[0]
            fail('design-map:value', f"{'run' if ordered else 'sorted run'} {r} factor {j}: value {float(Xc[r, j])!r}, expected "
                 f"{float(E[r, j])!r} (levels {table[j].tolist()})")

    if t in ('ff', 'gsd'):
        lv = level_list(case, vars_, names)
        table = [lin_levels(L[j], U[j], lv[j]) for j in range(F)]
        if t == 'ff':
            nexp = int(np.prod(lv))
            if R != nexp:
                fail('ff:count', f"{R} cases, expected prod(levels)={nexp} (levels {lv})")
            else:
                # independent oracle: multiset of runs == itertools.product of the level tables
                # factors whose levels are well separated (spacing >> tolerance) are identified by level index; for the
                # others (one level, lower == upper, or bounds a few ulp apart) only membership and multiplicity count
                free = [j for j in range(F) if lv[j] > 1 and (U[j] - L[j]) / (lv[j] - 1) > 16 * ltol[j]]
                mult = int(np.prod([lv[j] for j in range(F) if j not in free]))
                from collections import Counter
                cnt = Counter()
                bad = None
                for r in range(R):
                    key = []
                    for j in range(F):
                        near = int(np.argmin(np.abs(table[j] - X[r, j])))
                        if not abs(table[j][near] - X[r, j]) <= ltol[j]:
                            bad = (r, j)
                            break
                        if j in free:
                            key.append(near)
                    if bad:
                        break
                    cnt[tuple(key)] += 1
                if bad:
                    fail('ff:not-a-level', f"run {bad[0]} factor {bad[1]}: {float(X[bad[0], bad[1]])!r} not in {table[bad[1]].tolist()}")
                else:
                    want = set(itertools.product(*[range(lv[j]) for j in free]))
                    if set(cnt) != want or any(c != mult for c in cnt.values()):
                        fail('ff:not-product', f"level-index multiset differs from itertools.product: {len(cnt)} distinct of "
                             f"{len(want)}, multiplicities {sorted(set(cnt.values()))} expected {mult}")
        try:
            import pydoe
            if t == 'ff':
                D = pydoe.fullfact(lv)
            else:
                D = pydoe.gsd(levels=lv, reduction=g['reduction'], n=g['n'])
                if g['n'] > 1:
                    # n complementary designs (a list): all of them have to be run; their order is not specified
                    D = np.vstack(D)
        except Exception as e:
            raise ThirdParty(f"{type(e).__name__}: {e}")
        design_map(np.asarray(D).astype(int), table, ordered=not (t == 'gsd' and g['n'] > 1))
    elif t == 'pb':
        import pydoe
        D = (np.asarray(pydoe.pbdesign(F)) > 0).astype(int)
        design_map(D, [np.array([L[j], U[j]]) for j in range(F)])
    elif t == 'bb':
        import pydoe
        D = np.rint(np.asarray(pydoe.bbdesign(F, center=g['center']))).astype(int) + 1
        design_map(D, [np.array([L[j], L[j] + (U[j] - L[j]) / 2.0, U[j]]) for j in range(F)])
    elif t == 'lhs':
        n = g['samples'] if g['samples'] is not None else F
        if R != n:
            fail('lhs:count', f"{R} cases, expected samples={n}")
        else:
            for j in range(F):
                if not U[j] > L[j]:
                    continue
                span = U[j] - L[j]
                delta = n * 8 * EPS * mag[j] / span + 1e-12
                tt = np.sort((X[:, j] - L[j]) / span * n)
                k = np.arange(n)
                if np.any(tt < k - delta) or np.any(tt > k + 1 + delta) or np.any(np.isnan(tt)):
                    fail('lhs:strata', f"factor {j}: normalised*n sorted = {tt.tolist()} does not put one sample in each of "
                         f"{n} strata (values {X[:, j].tolist()}, bounds [{float(L[j])!r}, {float(U[j])!r}])")
                    break
                if g['criterion'] in CENTRED and np.any(np.abs(tt - (k + 0.5)) > delta):
                    fail('lhs:not-centred', f"factor {j}: normalised*n sorted = {tt.tolist()} not at stratum centres")
                    break
    elif t == 'uniform':
        if R != g['num_samples']:
            fail('uniform:count', f"{R} cases, expected num_samples={g['num_samples']}")
        elif R >= 3:
            j = int(np.argmax(U - L))
            # only for a range that holds far more than R doubles (bounds a few ulp apart legitimately repeat values)
            if U[j] - L[j] > 1e6 * np.spacing(mag[j]) and np.unique(X[:, j]).size == 1:
                fail('uniform:samples-identical', f"all {R} samples of factor {j} equal {float(X[0, j])!r}")


def judge_data_rows(case, names, rows, fail):
    """List / CSV: yielded values are the given data, in order."""
    g = case['gen']
    if len(rows) != len(g['rows']):
        fail(f"{g['type']}:count", f"{len(rows)} cases, data has {len(g['rows'])}")
        return
    for r, (row, drow) in enumerate(zip(rows, g['rows'])):
        if [i for i, _ in row] != [e['var'] for e in drow]:
            fail(f"{g['type']}:names", f"case {r}: variables {[i for i, _ in row]} expected {[e['var'] for e in drow]}")
            return
        for (i, a), e in zip(row, drow):
            want = np.array(e['val'], dtype=float)
            if g['type'] == 'list':
                ok = a.shape == want.shape and np.array_equal(a, want)
            else:
                ok = a.shape == want.shape and bool(np.all(np.abs(a - want) <= np.spacing(np.abs(want))))
            if not ok:
                fail(f"{g['type']}:value", f"case {r} var {i}: yielded {a.tolist()} data {want.tolist()}")
                return


# ---------------------------------------------------------------------------------------------
# the check
# ---------------------------------------------------------------------------------------------

def check(case):
    with warnings.catch_warnings():
        warnings.simplefilter('ignore')
        if case['gen']['type'] != 'csv' and not case.get('rec'):
            return _check(case, None)
        # only CSV files and recorder output need a directory (created inside the worker's scratch cwd, removed here)
        workdir = tempfile.mkdtemp(prefix='c23_', dir=os.getcwd())
        cwd = os.getcwd()
        os.chdir(workdir)
        try:
            return _check(case, workdir)
        finally:
            os.chdir(cwd)
            shutil.rmtree(workdir, ignore_errors=True)


def _check(case, workdir):
    g = case['gen']
    t = g['type']
    vars_ = case['vars']
    names = names_of(case)
    algorithmic = t not in ('list', 'csv')
    res = Result()
    F = sum(dvsize(v) for v in vars_)
    cls = ['mode_' + case['mode'], 'api_' + case['api'], 'gen_' + t, 'style_' + case['style']]
    if t == 'lhs':
        cls.append('lhs_' + str(g['criterion']))
        cls.append('lhs_seeded' if g['seed'] is not None else 'lhs_unseeded')
    if t in ('ff', 'gsd'):
        cls.append('levels_dict' if not isinstance(g['levels'], int) else 'levels_int')
    if any(np.any(bounds_of(v)[0] == bounds_of(v)[1]) for v in vars_):
        cls.append('has_degenerate_bound')
    if any(isinstance(v['lower'], list) or isinstance(v['upper'], list) for v in vars_):
        cls.append('array_bounds')
    if any(v['indices'] is not None for v in vars_):
        cls.append('has_indices')
    if any(v['dv_units'] is not None for v in vars_):
        cls.append('has_units')
    if any(v['scaling'] for v in vars_):
        cls.append('has_scaling')
    res.classes = cls

    pre = ''
    if known_gsd_n(case):
        pre = 'F23a-gsd-n-ge-2|'

    def fail(sig, detail=''):
        res.fail(pre + sig, detail)

    np.random.seed(case['npseed'])
    seeded = t in ('ff', 'gsd', 'pb', 'bb', 'list', 'csv') or g.get('seed') is not None

    def guarded(fn, where, soft=False):
        """Run OpenMDAO code; returns (ok, value). Third-party exceptions discard the case (soft: only skip the clause),
        exceptions raised by OpenMDAO itself are violations."""
        try:
            return True, fn()
        except Exception as e:
            if in_pydoe(e):
                if soft:
                    res.classes.append('clause_skipped_third_party')
                else:
                    res.discard = f"third_party_pydoe:{t}:{type(e).__name__}"
                return False, None
            if t == 'bb' and F < 3 and isinstance(e, RuntimeError) and 'at least 3' in str(e):
                res.discard = 'bb_fewer_than_3_factors_rejected'
                res.classes.append('bb_rejected')
                return False, None
            sig = core.repo_frame_signature(e, where)
            if sig is None:
                raise
            fail(sig, f"{type(e).__name__}: {e}")
            return False, None

    if case['mode'] == 'gen':
        if case['api'] == 'doe':
            _gen_doe(case, vars_, names, workdir, res, fail, guarded, seeded, algorithmic)
        else:
            _gen_samp(case, vars_, names, res, fail, guarded, seeded)
    else:
        _drv(case, vars_, names, workdir, res, fail, guarded, algorithmic)

    if res.discard is None:
        res.classes.append('judged')
        multi_array = len(vars_) >= 2 and any(isinstance(v['lower'], list) or isinstance(v['upper'], list) for v in vars_)
        dict_levels = t in ('ff', 'gsd') and not isinstance(g['levels'], int)
        lhs_n = t == 'lhs' and g['samples'] is not None and g['samples'] != F
        drv_conv = case['mode'] == 'drv' and any(v['indices'] is not None or v['dv_units'] is not None for v in vars_)
        res.nontrivial = bool(multi_array or dict_levels or lhs_n or drv_conv)
    return res


def _judge(case, vars_, names, rows, fail, res, algorithmic):
    if rows is None:
        return
    if algorithmic:
        try:
            judge_design(case, vars_, names, rows, fail)
        except ThirdParty:
            res.discard = 'third_party_pydoe'
    else:
        judge_data_rows(case, names, rows, fail)


def _gen_doe(case, vars_, names, workdir, res, fail, guarded, seeded, algorithmic):
    p, _ = build_problem(case, names)
    p.setup()
    p.final_setup()
    dvs = p.driver._designvars
    if list(dvs) != names:
        raise RuntimeError(f"harness: design var keys {list(dvs)} != {names}")
    gen = make_doe_gen(case, names, workdir)
    ok, raw1 = guarded(lambda: [copy_doe_case(c) for c in gen(dvs, p.model)], 'gen')
    if not ok:
        return
    rows1 = norm_doe_rows(raw1, names, vars_, algorithmic, fail)
    _judge(case, vars_, names, rows1, fail, res, algorithmic)
    if rows1 is None or res.discard:
        return
    # the generator object is reusable: a second call on the same object
    ok, raw2 = guarded(lambda: [copy_doe_case(c) for c in gen(dvs, p.model)], 'gen-second-call')
    if not ok:
        return
    rows2 = norm_doe_rows(raw2, names, vars_, algorithmic, fail)
    if rows2 is None:
        return
    if len(rows2) != len(rows1):
        fail('reuse:second-call-count', f"first call {len(rows1)} cases, second call {len(rows2)}")
    elif seeded and not same_rows(rows1, rows2):
        fail('reproducible:second-call-differs', f"first {[[a.tolist() for _, a in r] for r in rows1][:3]} second "
             f"{[[a.tolist() for _, a in r] for r in rows2][:3]}")
    elif not seeded:
        _judge(case, vars_, names, rows2, fail, res, algorithmic)
    if seeded:
        np.random.seed(case['npseed'] + 1)          # the ambient RNG state must not matter for a seeded generator
        gen3 = make_doe_gen(case, names, workdir)
        ok, raw3 = guarded(lambda: [copy_doe_case(c) for c in gen3(dvs, p.model)], 'gen-twin')
        if ok:
            rows3 = norm_doe_rows(raw3, names, vars_, algorithmic, fail)
            if rows3 is not None and not same_rows(rows1, rows3):
                fail('reproducible:same-seed-twin-differs', f"first {[[a.tolist() for _, a in r] for r in rows1][:3]} twin "
                     f"{[[a.tolist() for _, a in r] for r in rows3][:3]}")
    # reuse of the same object on a sub-set of the design variables (first variable only)
    if algorithmic and len(vars_) >= 2 and not (case['gen']['type'] == 'bb' and dvsize(vars_[0]) < 3):
        sub = type(dvs)()
        sub[names[0]] = dvs[names[0]]
        ok, raws = guarded(lambda: [copy_doe_case(c) for c in gen(sub, p.model)], 'gen-reuse-subset', soft=True)
        if ok:
            rows_s = norm_doe_rows(raws, names[:1], vars_[:1], True, fail)
            if rows_s is not None:
                sticky = []
                pre = 'F23c-lhs-default-samples-sticky|' if known_lhs_sticky(case) else ''
                try:
                    judge_design(case, vars_[:1], names[:1], rows_s, lambda s, d='': sticky.append((s, d)))
                except ThirdParty:
                    sticky = []
                for s, d in sticky:
                    fail(pre + 'reuse-on-subset:' + s, d)


def _gen_samp(case, vars_, names, res, fail, guarded, seeded):
    ok, raw1 = guarded(lambda: [copy_samp(d) for d in make_samp_gen(case, names)], 'gen')
    if not ok:
        return
    rows1 = norm_samp_rows(raw1, names, case, fail)
    _judge(case, vars_, names, rows1, fail, res, True)
    if rows1 is None or res.discard:
        return
    if seeded:
        np.random.seed(case['npseed'] + 1)
        ok, raw2 = guarded(lambda: [copy_samp(d) for d in make_samp_gen(case, names)], 'gen-twin')
        if ok:
            rows2 = norm_samp_rows(raw2, names, case, fail)
            if rows2 is not None and not same_rows(rows1, rows2):
                fail('reproducible:same-seed-twin-differs', f"first {[[a.tolist() for _, a in r] for r in rows1][:3]} twin "
                     f"{[[a.tolist() for _, a in r] for r in rows2][:3]}")
        # two generators with the same seed, both constructed before either is consumed
        def both():
            a = make_samp_gen(case, names)
            b = make_samp_gen(case, names)
            return [copy_samp(d) for d in a], [copy_samp(d) for d in b]
        ok, ab = guarded(both, 'gen-pair')
        if ok:
            ra = norm_samp_rows(ab[0], names, case, fail)
            rb = norm_samp_rows(ab[1], names, case, fail)
            if ra is not None and rb is not None and not (same_rows(ra, rb) and same_rows(ra, rows1)):
                pre = 'F23b-samp-uniform-seeded-at-construction|' if known_samp_uniform_seed(case) else ''
                fail(pre + 'reproducible:same-seed-pair-differs',
                     f"A {[[a.tolist() for _, a in r] for r in ra][:2]} B {[[a.tolist() for _, a in r] for r in rb][:2]} "
                     f"single {[[a.tolist() for _, a in r] for r in rows1][:2]}")
    # the iterator is exhausted exactly after the design
    gen = make_samp_gen(case, names)
    ok, n = guarded(lambda: sum(1 for _ in gen), 'gen-count')
    if ok and n != len(rows1):
        fail('reuse:fresh-generator-count', f"first generator {len(rows1)} samples, fresh one {n}")


def _expected_inputs(case, vars_, rows, samp):
    """Model of the spy inputs: per generated row the list of input arrays (in the inputs' units)."""
    state = [np.array(v['init'], dtype=float) for v in vars_]
    out = []
    for row in rows:
        for i, a in row:
            v = vars_[i]
            src = v['src_units']
            frm = v['dv_units'] if v['dv_units'] is not None else src
            val = conv(a, frm, src)
            if v['indices'] is not None:
                state[i][np.array(v['indices'], dtype=int)] = val
            else:
                state[i][:] = val
        out.append([conv(state[i], vars_[i]['src_units'], vars_[i]['in_units']) for i in range(len(vars_))])
    return out


def _drv(case, vars_, names, workdir, res, fail, guarded, algorithmic):
    import openmdao.api as om
    from openmdao.drivers.doe_generators import DOEGenerator
    samp = case['api'] == 'samp'
    tapped = []

    if samp:
        from openmdao.drivers.analysis_generator import AnalysisGenerator

        class Tap(AnalysisGenerator):
            def __init__(self, inner):          # deliberately no super().__init__: a pure pass-through iterator
                self.inner = inner

            def __next__(self):
                d = next(self.inner)
                tapped.append(copy_samp(d))
                return d

            def _get_sampled_vars(self):
                return self.inner._get_sampled_vars()

        ok, inner = guarded(lambda: make_samp_gen(case, names), 'drv-construct')
        if not ok:
            return
        driver = om.AnalysisDriver(Tap(inner))
    else:
        class Tap(DOEGenerator):
            def __init__(self, inner):
                super().__init__()
                self.inner = inner

            def __call__(self, design_vars, model=None):
                for c in self.inner(design_vars, model):
                    tapped.append(copy_doe_case(c))
                    yield c

        inner = make_doe_gen(case, names, workdir)
        driver = om.DOEDriver(Tap(inner))
    p, log = build_problem(case, names, driver=driver, analysis=samp)
    if case.get('rec'):
        p.driver.add_recorder(om.SqliteRecorder(os.path.join(workdir, 'cases.sql')))
    p.setup()
    p.final_setup()
    n0 = len(log)

    def run():
        p.run_driver()
        p.cleanup()
    ok, _ = guarded(run, 'drv-run')
    if not ok:
        return
    if samp:
        rows = norm_samp_rows(tapped, names, case, fail)
    else:
        rows = norm_doe_rows(tapped, names, vars_, algorithmic, fail)
    _judge(case, vars_, names, rows, fail, res, algorithmic)
    if rows is None or res.discard:
        return
    evals = log[n0:]
    if len(evals) != len(rows):
        fail('driver:evaluation-count', f"{len(rows)} generated cases, model evaluated {len(evals)} times")
        return
    exp = _expected_inputs(case, vars_, rows, samp)
    for r, (got, want) in enumerate(zip(evals, exp)):
        for i, v in enumerate(vars_):
            temp = v['in_units'] in FAMILIES[1]
            tol = 1e-11 * np.abs(want[i]) + (1e-9 if temp else 0.0)
            if got[i].shape != want[i].shape or np.any(np.abs(got[i] - want[i]) > tol) or np.any(np.isnan(got[i])):
                fail('driver:model-value-differs-from-generated',
                     f"evaluation {r} input x{i}: model saw {got[i].tolist()} expected {want[i].tolist()} "
                     f"(generated {[a.tolist() for j, a in rows[r] if j == i]} in {v['dv_units'] or v['src_units']}, input units {v['in_units']})")
                return
    if case.get('rec'):
        cr = om.CaseReader(os.path.join(workdir, 'cases.sql'))
        ids = cr.list_cases('driver', out_stream=None)
        if len(ids) != len(rows):
            fail('driver:recorded-case-count', f"{len(rows)} generated cases, {len(ids)} recorded driver cases")
            return
        if not samp:
            state = {}
            for r, cid in enumerate(ids):
                dv = cr.get_case(cid).get_design_vars(scaled=False)
                for i, a in rows[r]:
                    state[i] = a
                for i, a in state.items():
                    gotv = np.array(dv[names[i]], dtype=float).ravel()
                    temp = vars_[i]['in_units'] in FAMILIES[1]
                    tol = 1e-11 * np.abs(a) + (1e-9 if temp else 0.0)
                    if gotv.shape != a.shape or np.any(np.abs(gotv - a) > tol):
                        fail('driver:recorded-design-var-differs', f"case {r} {names[i]}: recorded {gotv.tolist()} generated {a.tolist()}")
                        return


# ---------------------------------------------------------------------------------------------
# Hypothesis strategy
# ---------------------------------------------------------------------------------------------

NICE = [0.0, 1.0, -1.0, 0.5, 2.0, -2.5, 10.0, -10.0, 0.001, 1000.0, -1000.0, 3.0, 0.1, -0.3, 7.25, 1e-3]


def strategy(tier):
    from hypothesis import strategies as st
    from vfw.gen_spec import chance

    raw = st.floats(-1e3, 1e3, allow_nan=False, allow_infinity=False, width=64).map(lambda x: 0.0 if abs(x) < 1e-3 else x)
    num = st.one_of(st.sampled_from(NICE), st.sampled_from(NICE), raw)

    @st.composite
    def case(draw):
        mode = draw(st.sampled_from(['gen', 'gen', 'gen', 'drv', 'drv']))
        t = draw(st.sampled_from(['uniform'] * 4 + ['ff'] * 8 + ['gsd'] * 4 + ['pb'] * 3 + ['bb'] * 4 + ['lhs'] * 10
                                 + ['list'] * 3 + ['csv'] * 3))
        api = 'doe' if t in ('list', 'csv') else draw(st.sampled_from(['doe', 'doe', 'doe', 'samp', 'samp']))
        style = 'auto' if (api == 'samp' and mode == 'drv') else draw(st.sampled_from(['ivc', 'ivc', 'auto']))
        promote = draw(st.booleans())
        nv = draw(st.sampled_from([1, 2, 2, 3, 3, 4]))
        if t == 'bb' and nv == 1 and not chance(draw, 0.2):
            nv = 2
        vars_ = []
        for i in range(nv):
            n = draw(st.sampled_from([1, 1, 2, 3]))
            if t == 'bb' and chance(draw, 0.5):
                n = max(n, 2)
            indices = None
            if chance(draw, 0.3):
                k = draw(st.integers(1, n))
                perm = draw(st.permutations(list(range(n))))
                indices = [int(x) for x in perm[:k]]
                if chance(draw, 0.2):
                    indices = [x - n if draw(st.booleans()) else x for x in indices]
            m = len(indices) if indices is not None else n
            kind = draw(st.sampled_from(['scalar', 'scalar', 'array', 'array', 'lo_array', 'hi_array']))
            if kind == 'scalar':
                a, b = draw(num), draw(num)
                lo, hi = (min(a, b), max(a, b))
                if chance(draw, 0.15):
                    hi = lo
            else:
                los, his = [], []
                for _ in range(m):
                    a, b = draw(num), draw(num)
                    l_, h_ = min(a, b), max(a, b)
                    if chance(draw, 0.15):
                        h_ = l_
                    los.append(l_)
                    his.append(h_)
                if kind == 'array':
                    lo, hi = los, his
                elif kind == 'lo_array':
                    hi = max(his + los)
                    lo = los
                else:
                    lo = min(los + his)
                    hi = his
            fam = draw(st.sampled_from([None, None, 0, 0, 1]))
            if fam is None:
                src_units = in_units = dv_units = None
            else:
                f = FAMILIES[fam]
                src_units = draw(st.sampled_from(f))
                in_units = src_units if style == 'auto' else draw(st.sampled_from(f))
                dv_units = draw(st.sampled_from((None,) + f))
            sc = draw(st.sampled_from([None, None, 'sa', 'ref']))
            if sc == 'sa':
                scaling = {'scaler': draw(st.sampled_from([2.0, 0.5, 10.0, -1.0, 0.01])), 'adder': draw(st.sampled_from([0.0, 1.0, -3.5]))}
            elif sc == 'ref':
                scaling = {'ref': draw(st.sampled_from([2.0, 10.0, 0.5])), 'ref0': draw(st.sampled_from([0.0, -1.0, 1.0]))}
            else:
                scaling = None
            init = [draw(st.sampled_from([7.0, -4.0, 0.25, 13.0, 100.0])) for _ in range(n)]
            vars_.append({'n': n, 'init': init, 'src_units': src_units, 'in_units': in_units, 'dv_units': dv_units,
                          'indices': indices, 'lower': lo, 'upper': hi, 'scaling': scaling})
        sizes = [dvsize(v) for v in vars_]
        F = sum(sizes)
        cap = 128 if mode == 'gen' else 48
        seed = draw(st.one_of(st.none(), st.integers(0, 2**31 - 1), st.integers(0, 50)))
        if t == 'uniform':
            g = {'type': t, 'num_samples': draw(st.integers(1, 6)), 'seed': seed}
        elif t in ('ff', 'gsd'):
            lomin = 2 if t == 'gsd' else 1
            if draw(st.booleans()):
                L = draw(st.sampled_from([2, 2, 3, 3, 4, 5] if t == 'gsd' else [1, 2, 2, 3, 3, 4, 5]))
                while L > lomin and L ** F > cap:
                    L -= 1
                lv = L
                per = [L] * nv
            else:
                by = {}
                default = draw(st.sampled_from([None, None, 2, 3, 4] if t == 'gsd' else [None, None, 1, 2, 3, 4]))
                per = []
                for i in range(nv):
                    if chance(draw, 0.7):
                        by[f"x{i}"] = draw(st.sampled_from([2, 3, 4, 5, 6] if t == 'gsd' else [1, 2, 3, 4, 5, 6]))
                        per.append(by[f"x{i}"])
                    else:
                        per.append(default if default is not None else 2)
                if chance(draw, 0.15) or (not by and default is None):
                    by['zz'] = draw(st.integers(1, 7))            # a key that names no design variable (never an empty dict)
                # shrink levels from the back until the design fits the cap
                def total():
                    return int(np.prod([float(per[i]) ** sizes[i] for i in range(nv)]))
                i = nv - 1
                while total() > cap and i >= 0:
                    if per[i] > lomin:
                        per[i] -= 1
                        by[f"x{i}"] = per[i]
                    else:
                        i -= 1
                lv = {'by_var': by, 'default': default}
            g = {'type': t, 'levels': lv}
            if t == 'gsd':
                g['reduction'] = draw(st.sampled_from([2, 2, 3, 4]))
                g['n'] = 2 if chance(draw, 0.1) else 1
        elif t == 'pb':
            g = {'type': t}
        elif t == 'bb':
            g = {'type': t, 'center': draw(st.sampled_from([None, None, 0, 1, 2, 3]))}
        elif t == 'lhs':
            crit = draw(st.sampled_from([None, None, None, 'center', 'c', 'maximin', 'm', 'centermaximin', 'cm', 'correlation', 'corr']))
            samples = draw(st.one_of(st.none(), st.integers(1, 9)))
            neff = samples if samples is not None else F
            if crit in ('maximin', 'm', 'centermaximin', 'cm') and neff < 2:
                samples = draw(st.integers(2, 6))
            if crit in ('correlation', 'corr') and (F < 2 or neff < 3):
                crit = None
            g = {'type': t, 'samples': samples, 'criterion': crit, 'iterations': draw(st.sampled_from([None, None, 1, 3, 8])),
                 'seed': seed}
        else:
            nrows = draw(st.integers(0, 5))
            rows = []
            for _ in range(nrows):
                row = []
                for i in range(nv):
                    if t == 'list' and nv > 1 and chance(draw, 0.1):
                        continue                                   # a case may leave a design variable untouched
                    val = [draw(num) for _ in range(sizes[i])]
                    if t == 'list':
                        form = draw(st.sampled_from(['array', 'array', 'list'] + (['float'] if sizes[i] == 1 else [])))
                        row.append({'var': i, 'val': val, 'form': form, 'pair': draw(st.sampled_from(['tuple', 'tuple', 'list']))})
                    else:
                        form = draw(st.sampled_from(['bracket', 'bare']))
                        row.append({'var': i, 'val': val, 'form': form})
                if t == 'list' and not row:
                    row.append({'var': 0, 'val': [draw(num) for _ in range(sizes[0])], 'form': 'array', 'pair': 'tuple'})
                rows.append(row)
            g = {'type': t, 'rows': rows}
            if t == 'csv':
                g['pad'] = draw(st.sampled_from([0, 0, 1, 2]))
        return {'mode': mode, 'api': api, 'style': style, 'promote': promote, 'npseed': draw(st.integers(0, 10000)),
                'rec': mode == 'drv' and chance(draw, 0.075), 'vars': vars_, 'gen': g}
    return case()


# ---------------------------------------------------------------------------------------------
# work units
# ---------------------------------------------------------------------------------------------

def units(tier, seed):
    # few, long shards: importing openmdao + pydoe dominates the cost of a worker process
    n = 2 if tier == 'quick' else 8
    per = 850 if tier == 'quick' else 4000
    return [{'kind': 'random', 'n': per, 'seed': core.shard_seed(seed, ID, i)} for i in range(n)]


def run_unit(unit, ctx):
    core.run_hypothesis(ctx, strategy(unit.get('tier')), check, unit['n'], unit['seed'], shrink=unit.get('tier') == 'thorough')
